//! C14 — integer sets, range sets and the sparse-bit-set codec act as mathematical sets.
//!
//! Correspondence (real code vs Lean model, one request line per history / input):
//!   rs.run / rs.int   RangeSet<u32|u16|Fixed>::insert histories and intersections
//!   sbs.enc           to_sparse_bit_set_with_bf::<2|4|8|32>, to_sparse_bit_set
//!   sbs.dec sbs.spec  from_sparse_bit_set_bounded on encodings, mutated encodings, random bytes
//!   is.run            IntSet<u32|u16|u8|GlyphId16|Disc> op-sequence interpreter, 3 registers,
//!                     full observation vector after every op
//!   isc.run           the same histories on the CONCRETE model (pages vector + page_map + in-place
//!                     process): exact layout after every op (observed through Serialize), the
//!                     behaviours computed from it, and abs(concrete) = abstract
//! Oracles (model-independent): interval-merge reference for RangeSet; reference interval-set
//! (`RefSet`, boolean sweep over breakpoints) for IntSet; an independent bit-level breadth-first
//! decoder written from the IFT specification text for the codec; encode→decode round trips.
use fv_harness::common::*;
use font_types::{Fixed, GlyphId16};
use read_fonts::collections::int_set::sparse_bit_set::to_sparse_bit_set_with_bf;
use read_fonts::collections::int_set::{Domain, InDomain};
use read_fonts::collections::{IntSet, RangeSet};
use std::collections::hash_map::DefaultHasher;
use std::hash::{Hash, Hasher};
use std::ops::RangeInclusive;

// ---------------------------------------------------------------------------------------------
// RangeSet
// ---------------------------------------------------------------------------------------------

fn show_pairs_i(rs: &[(i64, i64)]) -> String {
    if rs.is_empty() {
        return "-".into();
    }
    rs.iter().map(|(a, b)| format!("{a}:{b}")).collect::<Vec<_>>().join(",")
}

/// reference: sort the valid ranges and merge overlapping / adjacent ones
fn ref_merge(ops: &[(i64, i64)]) -> Vec<(i64, i64)> {
    let mut v: Vec<(i64, i64)> = ops.iter().copied().filter(|(s, e)| s <= e).collect();
    v.sort();
    let mut out: Vec<(i64, i64)> = vec![];
    for (s, e) in v {
        if let Some(last) = out.last_mut() {
            if s <= last.1 + 1 {
                last.1 = last.1.max(e);
                continue;
            }
        }
        out.push((s, e));
    }
    out
}

fn mem(rs: &[(i64, i64)], x: i64) -> bool {
    rs.iter().any(|(s, e)| *s <= x && x <= *e)
}

/// real-code runs for one element type (the `OrdAdjacency` trait is not exported, so no generics)
macro_rules! rs_impl {
    ($hist:ident, $inter:ident, $t:ty, $mk:expr, $val:expr) => {
        /// the entry list after each insert (Err = panic message)
        fn $hist(ops: &[(i64, i64)]) -> Vec<Result<(Vec<(i64, i64)>, bool), String>> {
            let mut set: RangeSet<$t> = Default::default();
            let mut out = vec![];
            for (a, b) in ops {
                let r = catch(|| {
                    set.insert($mk(*a)..=$mk(*b));
                    (set.iter().map(|x| ($val(*x.start()), $val(*x.end()))).collect::<Vec<(i64, i64)>>(), set.is_empty())
                });
                let stop = r.is_err();
                out.push(r);
                if stop {
                    break;
                }
            }
            out
        }
        fn $inter(a: &[(i64, i64)], b: &[(i64, i64)]) -> (Vec<(i64, i64)>, Vec<(i64, i64)>) {
            let sa: RangeSet<$t> = a.iter().map(|(x, y)| $mk(*x)..=$mk(*y)).collect();
            let sb: RangeSet<$t> = b.iter().map(|(x, y)| $mk(*x)..=$mk(*y)).collect();
            (
                sa.intersection(&sb).map(|x| ($val(*x.start()), $val(*x.end()))).collect(),
                sb.intersection(&sa).map(|x| ($val(*x.start()), $val(*x.end()))).collect(),
            )
        }
    };
}
rs_impl!(hist_u32, inter_u32, u32, |v: i64| v as u32, |x: u32| x as i64);
rs_impl!(hist_u16, inter_u16, u16, |v: i64| v as u16, |x: u16| x as i64);
rs_impl!(hist_fixed, inter_fixed, Fixed, |v: i64| Fixed::from_bits(v as i32), |x: Fixed| x.to_bits() as i64);

type HistFn = fn(&[(i64, i64)]) -> Vec<Result<(Vec<(i64, i64)>, bool), String>>;
type InterFn = fn(&[(i64, i64)], &[(i64, i64)]) -> (Vec<(i64, i64)>, Vec<(i64, i64)>);

fn rs_history(s: &mut Session, kind: &'static str, f: HistFn, ops: &[(i64, i64)]) {
    let mut states: Vec<String> = vec![];
    for (i, r) in f(ops).into_iter().enumerate() {
        match r {
            Ok((cur, empty)) => {
                let want = ref_merge(&ops[..=i]);
                s.oracle("rangeset-insert=merged-union-sorted-disjoint-nonadjacent", cur == want,
                    || format!("RangeSet<{kind}> inserts {:?}", &ops[..=i]),
                    || format!("got {cur:?} want {want:?}"));
                s.oracle("rangeset-is_empty", empty == want.is_empty(),
                    || format!("RangeSet<{kind}> inserts {:?}", &ops[..=i]), || String::new());
                states.push(show_pairs_i(&cur));
            }
            Err(e) => {
                s.oracle("rangeset-insert-no-panic", false,
                    || format!("RangeSet<{kind}> inserts {:?}", &ops[..=i]), || e.clone());
                states.push("panic".into());
            }
        }
    }
    let req = format!("rs.run {}", ops.iter().map(|(a, b)| format!("{a}:{b}")).collect::<Vec<_>>().join(" "));
    s.case("rangeset.insert", req, if states.is_empty() { "-".into() } else { states.join("|") });
    s.count(&format!("rs.final_ranges={}", ref_merge(ops).len().min(4)));
}

fn rs_intersection(s: &mut Session, kind: &'static str, f: InterFn, a: &[(i64, i64)], b: &[(i64, i64)]) {
    let (got, got_rev) = f(a, b);
    let (ma, mb) = (ref_merge(a), ref_merge(b));
    // critical points: every endpoint ±1
    let mut pts: Vec<i64> = vec![];
    for (x, y) in ma.iter().chain(mb.iter()).chain(got.iter()) {
        for d in [-1, 0, 1] {
            pts.push(x + d);
            pts.push(y + d);
        }
    }
    let ok_mem = pts.iter().all(|p| mem(&got, *p) == (mem(&ma, *p) && mem(&mb, *p)));
    let ok_shape = got.iter().all(|(x, y)| x <= y) && got.windows(2).all(|w| w[0].1 + 1 < w[1].0);
    s.oracle("rangeset-intersection=common-members-sorted-disjoint", ok_mem && ok_shape,
        || format!("RangeSet<{kind}> {a:?} ∩ {b:?}"), || format!("got {got:?}"));
    s.oracle("rangeset-intersection-commutes", got == got_rev,
        || format!("RangeSet<{kind}> {a:?} ∩ {b:?}"), || format!("{got:?} vs {got_rev:?}"));
    let f = |v: &[(i64, i64)]| v.iter().map(|(a, b)| format!("{a}:{b}")).collect::<Vec<_>>().join(" ");
    s.case("rangeset.intersection", format!("rs.int {} / {}", f(a), f(b)), show_pairs_i(&got));
    s.count(&format!("rs.intersection_ranges={}", got.len().min(4)));
}

fn gen_ops(rng: &mut Rng, pts: &[i64], n: usize) -> Vec<(i64, i64)> {
    (0..n)
        .map(|_| {
            let a = *rng.pick(pts);
            let b = if rng.chance(1, 3) { a + rng.range(0, 3) } else { *rng.pick(pts) };
            let hi = *pts.iter().max().unwrap();
            let b = b.min(hi);
            if a <= b || rng.chance(1, 6) { (a, b) } else { (b, a) }
        })
        .collect()
}

fn run_rangeset(cfg: &Config, s: &mut Session, rng: &mut Rng) {
    // exhaustive short histories over a tiny universe
    let small: Vec<(i64, i64)> = (0..=6).flat_map(|a| (0..=6).map(move |b| (a, b))).collect();
    for x in &small {
        for y in &small {
            if cfg.thorough() {
                for z in &small {
                    rs_history(s, "u32", hist_u32, &[*x, *y, *z]);
                }
            } else {
                rs_history(s, "u32", hist_u32, &[*x, *y]);
            }
        }
    }
    let n = if cfg.thorough() { 30_000 } else { 3_000 };
    let p32: Vec<i64> = (0..=12).chain((u32::MAX as i64 - 8)..=(u32::MAX as i64)).collect();
    let p16: Vec<i64> = (0..=10).chain(65526..=65535).collect();
    let pfx: Vec<i64> = ((i32::MIN as i64)..=(i32::MIN as i64 + 8)).chain(-5..=5).chain((i32::MAX as i64 - 8)..=(i32::MAX as i64)).collect();
    for i in 0..n {
        let len = 1 + rng.below(9) as usize;
        match i % 3 {
            0 => { let ops = gen_ops(rng, &p32, len); rs_history(s, "u32", hist_u32, &ops); }
            1 => { let ops = gen_ops(rng, &p16, len); rs_history(s, "u16", hist_u16, &ops); }
            _ => { let ops = gen_ops(rng, &pfx, len); rs_history(s, "Fixed", hist_fixed, &ops); }
        }
        let (la, lb) = (rng.below(6) as usize, rng.below(6) as usize);
        match i % 3 {
            0 => { let (a, b) = (gen_ops(rng, &p32, la), gen_ops(rng, &p32, lb)); rs_intersection(s, "u32", inter_u32, &a, &b); }
            1 => { let (a, b) = (gen_ops(rng, &p16, la), gen_ops(rng, &p16, lb)); rs_intersection(s, "u16", inter_u16, &a, &b); }
            _ => { let (a, b) = (gen_ops(rng, &pfx, la), gen_ops(rng, &pfx, lb)); rs_intersection(s, "Fixed", inter_fixed, &a, &b); }
        }
    }
}

// ---------------------------------------------------------------------------------------------
// Reference interval set (u64 bounds so that `end + 1` never overflows)
// ---------------------------------------------------------------------------------------------

type Iv = (u64, u64);

fn norm(mut v: Vec<Iv>) -> Vec<Iv> {
    v.retain(|(a, b)| a <= b);
    v.sort();
    let mut out: Vec<Iv> = vec![];
    for (s, e) in v {
        if let Some(last) = out.last_mut() {
            if s <= last.1 + 1 {
                last.1 = last.1.max(e);
                continue;
            }
        }
        out.push((s, e));
    }
    out
}

fn iv_mem(v: &[Iv], x: u64) -> bool {
    v.iter().any(|(a, b)| *a <= x && x <= *b)
}

/// boolean combination of two interval sets by a sweep over all breakpoints
fn bool_op(a: &[Iv], b: &[Iv], f: fn(bool, bool) -> bool) -> Vec<Iv> {
    let mut cuts: Vec<u64> = vec![0];
    for (s, e) in a.iter().chain(b.iter()) {
        cuts.push(*s);
        cuts.push(*e + 1);
    }
    cuts.push(1u64 << 33);
    cuts.sort();
    cuts.dedup();
    let mut out = vec![];
    for w in cuts.windows(2) {
        if f(iv_mem(a, w[0]), iv_mem(b, w[0])) {
            out.push((w[0], w[1] - 1));
        }
    }
    norm(out)
}

fn iv_len(v: &[Iv]) -> u64 {
    v.iter().map(|(a, b)| b - a + 1).sum()
}

fn iv_take(v: &[Iv], k: usize) -> Vec<u64> {
    let mut out = vec![];
    for (a, b) in v {
        let mut x = *a;
        while x <= *b && out.len() < k {
            out.push(x);
            x += 1;
        }
        if out.len() >= k {
            break;
        }
    }
    out
}

fn iv_take_back(v: &[Iv], k: usize) -> Vec<u64> {
    let mut out = vec![];
    for (a, b) in v.iter().rev() {
        let mut x = *b;
        loop {
            if out.len() >= k {
                return out;
            }
            out.push(x);
            if x == *a {
                break;
            }
            x -= 1;
        }
    }
    out
}

// ---------------------------------------------------------------------------------------------
// Sparse bit set codec
// ---------------------------------------------------------------------------------------------

/// Independent decoder written from the specification text
/// (https://w3c.github.io/IFT/Overview.html#sparse-bit-set-decoding): a bit string read least
/// significant bit first, a FIFO of (start, depth); returns the *unbiased* intervals and the
/// number of bytes consumed, or None if the stream runs out of bits.
fn spec_decode(data: &[u8]) -> Option<(Vec<Iv>, usize)> {
    let h = *data.first()?;
    let bf: u64 = [2, 4, 8, 32][(h & 3) as usize];
    let height = ((h >> 2) & 31) as u32;
    if height == 0 {
        return Some((vec![], 1));
    }
    let total_bits = (data.len() - 1) * 8;
    let bit = |i: usize| -> u64 { ((data[1 + i / 8] >> (i % 8)) & 1) as u64 };
    let mut pos = 0usize;
    let mut queue: std::collections::VecDeque<(u64, u32)> = Default::default();
    queue.push_back((0, 1));
    let mut out: Vec<Iv> = vec![];
    while let Some((start, depth)) = queue.pop_front() {
        if pos + bf as usize > total_bits {
            return None;
        }
        let mut v: u64 = 0;
        for i in 0..bf as usize {
            v |= bit(pos + i) << i;
        }
        pos += bf as usize;
        if v == 0 {
            let size = (bf as u128).pow(height - depth + 1);
            let end = (start as u128 + size - 1).min(u64::MAX as u128 / 2) as u64;
            out.push((start, end));
            continue;
        }
        for i in 0..bf {
            if v & (1 << i) != 0 {
                if depth == height {
                    out.push((start + i, start + i));
                } else {
                    let step = (bf as u128).pow(height - depth);
                    let child = start as u128 + i as u128 * step;
                    queue.push_back((child.min(u64::MAX as u128 / 2) as u64, depth + 1));
                }
            }
        }
    }
    Some((out, 1 + pos.div_ceil(8)))
}

fn clip(ivs: &[Iv], bias: u32, max: u32) -> Vec<Iv> {
    let hi = max as u64;
    norm(
        ivs.iter()
            .filter_map(|(a, b)| {
                let lo = a.saturating_add(bias as u64);
                let e = b.saturating_add(bias as u64).min(hi).min(u32::MAX as u64);
                if lo <= e { Some((lo, e)) } else { None }
            })
            .collect(),
    )
}

fn max_height(bf: u64) -> u32 {
    match bf { 2 => 31, 4 => 16, 8 => 11, _ => 7 }
}

fn set_ranges(set: &IntSet<u32>) -> Vec<Iv> {
    set.iter_ranges().map(|r| (*r.start() as u64, *r.end() as u64)).collect()
}

fn show_iv(v: &[Iv]) -> String {
    if v.is_empty() {
        return "-".into();
    }
    v.iter().map(|(a, b)| format!("{a}:{b}")).collect::<Vec<_>>().join(",")
}

const ALLOC_CAP: u64 = 1 << 19; // members we let the real decoder materialise (1024 pages)

fn decode_case(s: &mut Session, group: &'static str, data: &[u8], bias: u32, max: u32) {
    let header = data.first().copied();
    let (bf, height) = match header {
        Some(h) => ([2u64, 4, 8, 32][(h & 3) as usize], ((h >> 2) & 31) as u32),
        None => (2, 0),
    };
    let too_high = header.is_some() && height > max_height(bf);
    // the reference decoder's u128 node sizes only cover the supported heights (32^32 does not fit)
    let want: Option<(Vec<Iv>, usize)> = if too_high { None } else { spec_decode(data).map(|(iv, n)| (clip(&iv, bias, max), n)) };
    if let Some((iv, _)) = &want {
        // The real decoder materialises every member's page: skip inputs that denote huge sets.
        let pages: u64 = iv.iter().map(|(a, b)| b / 512 - a / 512 + 1).sum();
        if iv_len(iv) > ALLOC_CAP || pages > 2048 {
            s.count("codec.skipped_huge");
            return;
        }
    }
    let got = catch(|| {
        IntSet::<u32>::from_sparse_bit_set_bounded(data, bias, max)
            .map(|(set, rest)| (set_ranges(&set), rest.to_vec(), set.len(), set.is_inverted()))
            .ok()
    });
    let input = || format!("from_sparse_bit_set_bounded(bytes={}, bias={bias}, max={max})", hex(data));
    let resp = match &got {
        Err(_) => "panic".to_string(),
        Ok(None) => "err".to_string(),
        Ok(Some((rs, rest, _, _))) => format!("ok {} {}", show_iv(rs), hex(rest)),
    };
    s.oracle("sparse-decode-never-panics", got.is_ok(), input, || format!("{got:?}"));
    if let Ok(g) = &got {
        let ok = match (g, &want) {
            (None, None) => true,
            (Some((rs, rest, len, inv)), Some((iv, n))) => rs == iv && rest.as_slice() == &data[*n..] && *len == iv_len(iv) && !*inv,
            _ => false,
        };
        s.oracle("sparse-decode=spec-algorithm(members,remainder)", ok, input,
            || format!("got {resp} want {:?}", want.as_ref().map(|(iv, n)| (show_iv(iv), hex(&data[*n..])))));
    }
    s.case(group, format!("sbs.dec {bias} {max} {}", hex(data)), resp.clone());
    if !too_high {
        s.case("codec.spec", format!("sbs.spec {bias} {max} {}", hex(data)), resp.clone());
    }
    s.count(&format!("codec.decode:{}", &resp[..resp.len().min(3)]));
    s.count(&format!("codec.decode.bf={bf}"));
    if too_high {
        s.count("codec.decode.too_high");
    }
}

fn enc_with(set: &IntSet<u32>, bf: u8) -> Result<Vec<u8>, String> {
    catch(|| match bf {
        2 => to_sparse_bit_set_with_bf::<2>(set),
        4 => to_sparse_bit_set_with_bf::<4>(set),
        8 => to_sparse_bit_set_with_bf::<8>(set),
        32 => to_sparse_bit_set_with_bf::<32>(set),
        _ => set.to_sparse_bit_set(),
    })
}

fn encode_case(s: &mut Session, ranges: &[Iv]) {
    let ranges = norm(ranges.to_vec());
    let mut set = IntSet::<u32>::empty();
    for (a, b) in &ranges {
        set.insert_range(*a as u32..=*b as u32);
    }
    let rs = if ranges.is_empty() { String::new() } else { format!(" {}", ranges.iter().map(|(a, b)| format!("{a}:{b}")).collect::<Vec<_>>().join(" ")) };
    let mut lens: Vec<usize> = vec![];
    for bf in [2u8, 4, 8, 32, 0] {
        let r = enc_with(&set, bf);
        let input = || format!("to_sparse_bit_set(bf={bf}) of {}", show_iv(&ranges));
        s.oracle("sparse-encode-never-panics", r.is_ok(), input, || format!("{r:?}"));
        let resp = match &r { Ok(b) => hex(b), Err(_) => "panic".into() };
        s.case("codec.encode", format!("sbs.enc {bf}{rs}"), resp);
        if let Ok(bytes) = &r {
            let back = catch(|| IntSet::<u32>::from_sparse_bit_set_bounded(bytes, 0, u32::MAX).ok().map(|(d, rest)| (d == set, set_ranges(&d), rest.len())));
            let ok = matches!(&back, Ok(Some((true, r2, 0))) if *r2 == ranges);
            s.oracle("sparse-decode∘encode=id", ok, input, || format!("bytes={} decoded={back:?}", hex(bytes)));
            let plain = catch(|| IntSet::<u32>::from_sparse_bit_set(bytes).ok().map(|d| d == set));
            s.oracle("sparse-decode∘encode=id", plain == Ok(Some(true)), input, || format!("from_sparse_bit_set: {plain:?}"));
            if bf != 0 {
                lens.push(bytes.len());
            } else if let Some(m) = lens.iter().min() {
                s.oracle("to_sparse_bit_set-is-a-shortest-candidate", bytes.len() <= *m, input, || format!("{} vs {lens:?}", bytes.len()));
            }
            // the encoding, the encoding with a trailing tail, and bias/max variations, decoded by both sides
            decode_case(s, "codec.decode.encoded", bytes, 0, u32::MAX);
            s.count(&format!("codec.encode.bf={bf}.header_height={}", (bytes[0] >> 2) & 31));
        }
    }
}

fn gen_set(rng: &mut Rng) -> Vec<Iv> {
    let pts: [u64; 28] = [0, 1, 2, 3, 7, 8, 15, 16, 31, 32, 63, 64, 255, 256, 511, 512, 513, 1023, 1024, 4095, 4096, 32767, 32768, 65535, 65536, 1 << 20, (1 << 31) - 1, 1 << 31];
    let mut v: Vec<Iv> = vec![];
    let n = rng.below(7);
    let small = rng.chance(2, 3);
    for _ in 0..n {
        let a = if small { *rng.pick(&pts[..21]) } else if rng.chance(1, 5) { u32::MAX as u64 - rng.below(70) } else { *rng.pick(&pts) };
        match rng.below(4) {
            0 => v.push((a, a)),
            1 => v.push((a, (a + rng.below(4)).min(u32::MAX as u64))),
            2 => {
                // aligned power-of-bf blocks produce filled nodes
                let w = *rng.pick(&[2u64, 4, 8, 16, 32, 64, 128, 256, 512, 1024]);
                let base = a / w * w;
                v.push((base, (base + w * (1 + rng.below(2)) - 1).min(u32::MAX as u64)));
            }
            _ => v.push((a, (a + rng.below(700)).min(u32::MAX as u64))),
        }
    }
    v
}

fn run_codec(cfg: &Config, s: &mut Session, rng: &mut Rng) {
    // all sets of ≤ 2 (quick) / ≤ 3 (thorough) elements over a boundary domain
    let dom: [u64; 12] = [0, 1, 2, 7, 8, 31, 32, 63, 64, 511, 512, u32::MAX as u64];
    encode_case(s, &[]);
    for (i, a) in dom.iter().enumerate() {
        encode_case(s, &[(*a, *a)]);
        for (j, b) in dom.iter().enumerate().skip(i + 1) {
            encode_case(s, &[(*a, *a), (*b, *b)]);
            if cfg.thorough() {
                for c in dom.iter().skip(j + 1) {
                    encode_case(s, &[(*a, *a), (*b, *b), (*c, *c)]);
                }
            }
        }
    }
    // filled blocks at every level: [0, bf^k - 1] and shifted copies
    for bf in [2u64, 4, 8, 32] {
        for k in 1..=4u32 {
            let w = bf.pow(k);
            // the model's encoder is quadratic in the member count: keep the quick tier to blocks of <= 4096 members
            if w <= if cfg.thorough() { 40_000 } else { 2_048 } {
                encode_case(s, &[(0, w - 1)]);
                encode_case(s, &[(w, 2 * w - 1)]);
                encode_case(s, &[(0, w - 1), (2 * w, 2 * w)]);
                encode_case(s, &[(1, w - 1)]);
                encode_case(s, &[(0, w - 2)]);
            }
        }
    }
    let n = if cfg.thorough() { 6000 } else { 500 };
    for _ in 0..n {
        let set = gen_set(rng);
        encode_case(s, &set);
    }
    // decoding: encodings under bias/max, mutated encodings, random bytes
    let biases: [u32; 8] = [0, 1, 5, 511, 512, 65536, u32::MAX - 3, u32::MAX];
    let maxes: [u32; 10] = [0, 1, 17, 19, 20, 511, 512, 65535, 100_000, u32::MAX];
    let n = if cfg.thorough() { 30_000 } else { 3_000 };
    for i in 0..n {
        let bias = if rng.chance(1, 2) { 0 } else { *rng.pick(&biases) };
        let max = if rng.chance(1, 3) { u32::MAX } else { *rng.pick(&maxes) };
        let mut bytes: Vec<u8> = if i % 3 == 0 {
            // random header + random body with many zero (filled) nodes and sparse bits
            let bf_bits = rng.below(4) as u8;
            let mh = max_height([2, 4, 8, 32][bf_bits as usize]);
            let height = if rng.chance(1, 12) { rng.below(32) as u8 } else if rng.chance(1, 3) { (mh - rng.below(2) as u32) as u8 } else { rng.below(6) as u8 };
            let mut b = vec![(height << 2) | bf_bits | if rng.chance(1, 8) { 0x80 } else { 0 }];
            let len = rng.below(24) as usize;
            for _ in 0..len {
                b.push(match rng.below(4) { 0 => 0, 1 => 1 << rng.below(8), 2 => (1u8 << rng.below(8)) | (1 << rng.below(8)), _ => rng.next() as u8 });
            }
            b
        } else {
            let set = gen_set(rng);
            let mut st = IntSet::<u32>::empty();
            for (a, b) in norm(set) {
                st.insert_range(a as u32..=b as u32);
            }
            enc_with(&st, *rng.pick(&[2u8, 4, 8, 32, 0])).unwrap_or_default()
        };
        match rng.below(5) {
            0 => { let k = rng.below(bytes.len() as u64 + 1) as usize; bytes.truncate(k); }
            1 => { let k = 1 + rng.below(3) as usize; let extra = rng.bytes(k); bytes.extend(extra); }
            2 => { if !bytes.is_empty() { let k = rng.below(bytes.len() as u64) as usize; bytes[k] ^= 1 << rng.below(8); } }
            _ => {}
        }
        decode_case(s, "codec.decode.fuzz", &bytes, bias, max);
    }
    // the test vectors of the specification
    decode_case(s, "codec.decode.fuzz", &[0b00001110, 0b00100001, 0b00010001, 0b00000001, 0b00000100, 0b00000010, 0b00001000], 0, u32::MAX);
    for (b, m) in [(0, 20), (0, 19), (1, 20), (1, 18), (0, 14), (6, 20), (0, 0), (1, 0)] {
        decode_case(s, "codec.decode.fuzz", &[0b0_00011_01, 0b0000_0011, 0b1111_0011, 0b0000_0001], b, m);
        decode_case(s, "codec.decode.fuzz", &[0b0_00011_01, 0b0000_0011, 0b1111_0011], b, m);
    }
}

// ---------------------------------------------------------------------------------------------
// IntSet op sequences
// ---------------------------------------------------------------------------------------------

#[derive(Clone, Copy, PartialEq, Eq, PartialOrd, Ord, Debug)]
struct Disc(u32);

const DISC_RANGES: [(u32, u32); 6] = [(2, 5), (8, 16), (510, 513), (1022, 1030), (65530, 65536), (u32::MAX - 1, u32::MAX)];

impl Domain for Disc {
    fn to_u32(&self) -> u32 { self.0 }
    fn contains(value: u32) -> bool { DISC_RANGES.iter().any(|(a, b)| *a <= value && value <= *b) }
    fn from_u32(member: InDomain) -> Self { Disc(member.value()) }
    fn is_continuous() -> bool { false }
    fn ordered_values() -> impl DoubleEndedIterator<Item = u32> {
        DISC_RANGES.into_iter().flat_map(|(a, b)| a..=b)
    }
    fn ordered_values_range(range: RangeInclusive<Self>) -> impl DoubleEndedIterator<Item = u32> {
        Self::ordered_values().filter(move |v| *v >= range.start().0 && *v <= range.end().0)
    }
    fn count() -> u64 { 35 }
}

trait Dom: Domain + Ord + Copy {
    const NAME: &'static str;
    fn mk(v: u32) -> Self;
    fn dom() -> Vec<Iv>;
    fn boundary() -> Vec<u32>;
}
impl Dom for u32 {
    const NAME: &'static str = "u32";
    fn mk(v: u32) -> Self { v }
    fn dom() -> Vec<Iv> { vec![(0, u32::MAX as u64)] }
    fn boundary() -> Vec<u32> {
        let m = u32::MAX;
        vec![0, 1, 2, 62, 63, 64, 65, 127, 128, 510, 511, 512, 513, 1023, 1024, 1025, 1535, 1536, 65535, 65536, (1 << 31) - 1, 1 << 31, m - 1024, m - 513, m - 512, m - 511, m - 2, m - 1, m]
    }
}
impl Dom for u16 {
    const NAME: &'static str = "u16";
    fn mk(v: u32) -> Self { v as u16 }
    fn dom() -> Vec<Iv> { vec![(0, 65535)] }
    fn boundary() -> Vec<u32> { vec![0, 1, 2, 63, 64, 65, 510, 511, 512, 513, 1023, 1024, 1025, 32767, 32768, 65023, 65024, 65025, 65533, 65534, 65535] }
}
impl Dom for u8 {
    const NAME: &'static str = "u8";
    fn mk(v: u32) -> Self { v as u8 }
    fn dom() -> Vec<Iv> { vec![(0, 255)] }
    fn boundary() -> Vec<u32> { vec![0, 1, 2, 62, 63, 64, 65, 127, 128, 129, 191, 192, 253, 254, 255] }
}
impl Dom for GlyphId16 {
    const NAME: &'static str = "gid16";
    fn mk(v: u32) -> Self { GlyphId16::new(v as u16) }
    fn dom() -> Vec<Iv> { vec![(0, 65535)] }
    fn boundary() -> Vec<u32> { <u16 as Dom>::boundary() }
}
impl Dom for Disc {
    const NAME: &'static str = "disc";
    fn mk(v: u32) -> Self { Disc(v) }
    fn dom() -> Vec<Iv> { DISC_RANGES.iter().map(|(a, b)| (*a as u64, *b as u64)).collect() }
    fn boundary() -> Vec<u32> { DISC_RANGES.iter().flat_map(|(a, b)| [*a, *a + 1, *b - 1, *b]).collect() }
}

const ITER_CAP: usize = 6;

fn nats<T: std::fmt::Display>(v: &[T]) -> String {
    if v.is_empty() { "-".into() } else { v.iter().map(|x| x.to_string()).collect::<Vec<_>>().join(",") }
}

fn hash_of<T: Dom>(s: &IntSet<T>) -> u64 {
    let mut h = DefaultHasher::new();
    s.hash(&mut h);
    h.finish()
}

fn bit(b: bool) -> &'static str { if b { "1" } else { "0" } }

/// first differing element decides; a proper prefix is smaller (lexicographic order on members)
fn ref_cmp(a: &[Iv], b: &[Iv]) -> std::cmp::Ordering {
    use std::cmp::Ordering::*;
    let only_a = bool_op(a, b, |x, y| x && !y);
    let only_b = bool_op(a, b, |x, y| !x && y);
    match (only_a.first(), only_b.first()) {
        (None, None) => Equal,
        (Some((d, _)), other) if other.map_or(true, |(e, _)| d < e) => {
            // d ∈ a \ b is the first difference: b's element at that position is its next member > d
            if b.iter().any(|(_, hi)| hi > d) { Less } else { Greater }
        }
        (_, Some((e, _))) => {
            if a.iter().any(|(_, hi)| hi > e) { Greater } else { Less }
        }
        _ => Equal,
    }
}

// ---------------------------------------------------------------------------------------------
// the concrete BitSet layout, observed through `Serialize` (pages / page_map / length)
// ---------------------------------------------------------------------------------------------

const LAYOUT_FULL_CAP: usize = 8;
const CONC_ITER_CAP: u64 = 5000;

struct Layout {
    inverted: bool,
    length: u64,
    pages: Vec<([u64; 8], u64)>,
    page_map: Vec<(u64, u64)>, // (major_value, index)
}

fn layout_of<T: Dom>(set: &IntSet<T>) -> Result<Layout, String> {
    let v = serde_json::to_value(set).map_err(|e| e.to_string())?;
    let o = v.as_object().ok_or("not an object")?;
    let (inverted, b) = if let Some(b) = o.get("Inclusive") { (false, b) } else if let Some(b) = o.get("Exclusive") { (true, b) } else { return Err("no variant".into()) };
    let num = |x: &serde_json::Value| x.as_u64().ok_or_else(|| format!("not a u64: {x}"));
    let mut pages = vec![];
    for p in b["pages"].as_array().ok_or("pages")? {
        let st = p["storage"].as_array().ok_or("storage")?;
        if st.len() != 8 { return Err("storage len".into()); }
        let mut w = [0u64; 8];
        for (i, x) in st.iter().enumerate() { w[i] = num(x)?; }
        pages.push((w, num(&p["length"])?));
    }
    let mut page_map = vec![];
    for e in b["page_map"].as_array().ok_or("page_map")? {
        page_map.push((num(&e["major_value"])?, num(&e["index"])?));
    }
    Ok(Layout { inverted, length: num(&b["length"])?, pages, page_map })
}

impl Layout {
    fn numbers(&self) -> Vec<u64> {
        let mut v = vec![self.inverted as u64, self.length, self.pages.len() as u64, self.page_map.len() as u64];
        for (m, i) in &self.page_map { v.push(*m); v.push(*i); }
        for (w, l) in &self.pages { v.extend_from_slice(w); v.push(*l); }
        v
    }
    fn hash(&self) -> u64 {
        const P: u128 = 2305843009213693951;
        let mut h: u128 = 7;
        for x in self.numbers() { h = (h * 1000003 + (x as u128 % P) + 1) % P; }
        h as u64
    }
    fn full(&self) -> String {
        if self.pages.len() > LAYOUT_FULL_CAP { return "-".into(); }
        let pm = if self.page_map.is_empty() { "-".to_string() } else { self.page_map.iter().map(|(m, i)| format!("{m}:{i}")).collect::<Vec<_>>().join(",") };
        let pg = if self.pages.is_empty() { "-".to_string() } else {
            self.pages.iter().map(|(w, l)| format!("{}:{l}", w.iter().map(|x| x.to_string()).collect::<Vec<_>>().join("."))).collect::<Vec<_>>().join(",")
        };
        format!("{pm}/{pg}")
    }
    /// the representation invariant bitset.rs relies on (model-independent oracle)
    fn invariant(&self) -> Result<(), String> {
        if self.pages.len() != self.page_map.len() { return Err(format!("pages {} != page_map {}", self.pages.len(), self.page_map.len())); }
        if !self.page_map.windows(2).all(|w| w[0].0 < w[1].0) { return Err("page_map not strictly sorted by major".into()); }
        let mut seen = vec![false; self.pages.len()];
        for (_, i) in &self.page_map {
            let i = *i as usize;
            if i >= seen.len() { return Err(format!("index {i} out of bounds")); }
            if seen[i] { return Err(format!("index {i} referenced twice")); }
            seen[i] = true;
        }
        let mut sum = 0u64;
        for (w, l) in &self.pages {
            let pc: u64 = w.iter().map(|x| x.count_ones() as u64).sum();
            if pc != *l { return Err(format!("page length {l} but popcount {pc}")); }
            sum += l;
        }
        if sum != self.length { return Err(format!("length {} but pages sum to {sum}", self.length)); }
        Ok(())
    }
}

/// what the concrete Lean model must reproduce: the exact layout + the behaviours computed from it
fn conc_observe<T: Dom>(s: &mut Session, set: &IntSet<T>, probes: &[u32], ret: &str, history: &str) -> String {
    let input = || format!("IntSet<{}> ops [{history}]", T::NAME);
    let lay = match layout_of(set) {
        Ok(l) => l,
        Err(e) => { s.oracle("bitset-layout-serialises", false, input, || e.clone()); return "noserde".into(); }
    };
    let inv_ok = lay.invariant();
    s.oracle("bitset-layout-invariant(pages<->page_map bijection,sorted,lengths)", inv_ok.is_ok(), input, || format!("{inv_ok:?} layout {}", lay.full()));
    let small = lay.length <= CONC_ITER_CAP && lay.pages.len() as u64 <= CONC_ITER_CAP;
    let cont = T::is_continuous();
    let pr = |v: &[(u32, u32)]| if v.is_empty() { "-".to_string() } else { v.iter().map(|(a, b)| format!("{a}:{b}")).collect::<Vec<_>>().join(",") };
    let rest = catch(|| {
        let ranges = if small && cont {
            let v: Vec<(u32, u32)> = if lay.inverted {
                set.iter_excluded_ranges().take(ITER_CAP).map(|r| (r.start().to_u32(), r.end().to_u32())).collect()
            } else {
                set.iter_ranges().take(ITER_CAP).map(|r| (r.start().to_u32(), r.end().to_u32())).collect()
            };
            pr(&v)
        } else { "-".into() };
        let (fwd, back) = if small && !lay.inverted {
            (nats(&set.iter().take(ITER_CAP).map(|x| x.to_u32()).collect::<Vec<_>>()),
             nats(&set.iter().rev().take(ITER_CAP).map(|x| x.to_u32()).collect::<Vec<_>>()))
        } else { ("-".to_string(), "-".to_string()) };
        let contains: String = probes.iter().map(|p| bit(set.contains(T::mk(*p)))).collect();
        format!("{ranges};{fwd};{back};{contains}")
    });
    let rest = match rest { Ok(r) => r, Err(e) => { s.oracle("intset-observers-never-panic", false, input, || e.clone()); "panic".into() } };
    s.count(&format!("conc.pages={}", lay.pages.len().min(9)));
    if lay.page_map.iter().enumerate().any(|(k, (_, i))| *i as usize != k) { s.count("conc.layout:pages-out-of-major-order"); } else { s.count("conc.layout:pages-in-major-order"); }
    if lay.pages.iter().any(|(_, l)| *l == 0) { s.count("conc.layout:has-empty-page"); }
    format!("{ret};{};{};{};{};{};{rest};A1", bit(lay.inverted), lay.length, lay.pages.len(), lay.hash(), lay.full())
}

struct Machine<T: Dom> {
    real: [IntSet<T>; 3],
    refs: [Vec<Iv>; 3],
    probes: Vec<u32>,
}

impl<T: Dom> Machine<T> {
    fn observe(&self, s: &mut Session, r: usize, ret: &str, history: &str) -> String {
        let set = &self.real[r];
        let want = &self.refs[r];
        let dom = T::dom();
        let input = || format!("IntSet<{}> ops [{history}] register {r}", T::NAME);
        let obs = catch(|| {
            let len = catch(|| set.len()).map(|v| v.to_string()).unwrap_or("trap".into());
            let fwd: Vec<u32> = set.iter().take(ITER_CAP).map(|v| v.to_u32()).collect();
            let back: Vec<u32> = set.iter().rev().take(ITER_CAP).map(|v| v.to_u32()).collect();
            let first = set.first().map(|v| v.to_u32());
            let last = set.last().map(|v| v.to_u32());
            let ranges: Vec<(u32, u32)> = set.iter_ranges().take(ITER_CAP).map(|r| (r.start().to_u32(), r.end().to_u32())).collect();
            let ex: Vec<(u32, u32)> = set.iter_excluded_ranges().take(ITER_CAP).map(|r| (r.start().to_u32(), r.end().to_u32())).collect();
            let contains: Vec<bool> = self.probes.iter().map(|p| set.contains(T::mk(*p))).collect();
            let afters: Vec<Vec<u32>> = self.probes.iter().take(4).map(|p| set.iter_after(T::mk(*p)).take(3).map(|v| v.to_u32()).collect()).collect();
            let pairs: Vec<(u32, u32)> = self.probes.iter().copied().zip(self.probes.iter().copied().skip(1)).take(6).collect();
            let ir: Vec<(bool, bool)> = pairs.iter().map(|(a, b)| (set.intersects_range(T::mk(*a)..=T::mk(*b)), set.intersects_range(T::mk(*b)..=T::mk(*a)))).collect();
            let others: Vec<(usize, bool, std::cmp::Ordering, bool, bool)> = (0..3).filter(|q| *q != r).map(|q| {
                let t = &self.real[q];
                (q, set == t, set.cmp(t), hash_of(set) == hash_of(t), set.intersects_set(t))
            }).collect();
            (len, fwd, back, first, last, ranges, ex, contains, afters, pairs, ir, others, set.is_inverted(), set.is_empty(), set.inclusive_iter().map(|it| it.take(ITER_CAP).map(|v| v.to_u32()).collect::<Vec<u32>>()))
        });
        let (len, fwd, back, first, last, ranges, ex, contains, afters, pairs, ir, others, inv, is_empty, incl) = match obs {
            Ok(o) => o,
            Err(e) => {
                s.oracle("intset-observers-never-panic", false, input, || e.clone());
                return "panic".into();
            }
        };
        // ---- oracles against the reference interval set ----
        let wl = iv_len(want);
        s.oracle("intset-len=|members|", len == wl.to_string() && is_empty == (wl == 0), input, || format!("len {len} want {wl}"));
        let wf: Vec<u64> = iv_take(want, ITER_CAP);
        let wb: Vec<u64> = iv_take_back(want, ITER_CAP);
        let as64 = |v: &[u32]| v.iter().map(|x| *x as u64).collect::<Vec<u64>>();
        s.oracle("intset-iter=ascending-members", as64(&fwd) == wf, input, || format!("{fwd:?} want {wf:?}"));
        s.oracle("intset-iter.rev=descending-members", as64(&back) == wb, input, || format!("{back:?} want {wb:?}"));
        s.oracle("intset-first=min", first.map(|x| x as u64) == wf.first().copied(), input, || format!("{first:?} want {:?}", wf.first()));
        s.oracle("intset-last=max", last.map(|x| x as u64) == wb.first().copied(), input, || format!("{last:?} want {:?}", wb.first()));
        if let Some(incl) = &incl {
            s.oracle("intset-inclusive_iter=members", !inv && as64(incl) == wf, input, || format!("{incl:?}"));
        } else {
            s.oracle("intset-inclusive_iter=members", inv, input, || "None on a non-inverted set".into());
        }
        for (p, c) in self.probes.iter().zip(contains.iter()) {
            s.oracle("intset-contains=membership", *c == iv_mem(want, *p as u64), input, || format!("contains({p}) = {c}"));
        }
        for (p, a) in self.probes.iter().zip(afters.iter()) {
            let w = iv_take(&bool_op(want, &[(*p as u64 + 1, 1 << 33)], |x, y| x && y), 3);
            s.oracle("intset-iter_after=members-greater", as64(a) == w, input, || format!("iter_after({p}) = {a:?} want {w:?}"));
        }
        for ((a, b), (x, y)) in pairs.iter().zip(ir.iter()) {
            let w = |lo: u32, hi: u32| lo <= hi && !bool_op(want, &[(lo as u64, hi as u64)], |p, q| p && q).is_empty();
            s.oracle("intset-intersects_range=nonempty-meet", *x == w(*a, *b) && *y == w(*b, *a), input, || format!("intersects_range({a}..={b}) = {x}, reversed = {y}"));
        }
        // ranges: for continuous domains exactly the maximal runs; for discontinuous domains ranges are
        // maximal runs in domain order, i.e. (∪ ranges) ∩ domain = members, sorted and disjoint
        let dom_cont = T::is_continuous();
        let full_ranges: Option<Vec<Iv>> = if want.len() <= 64 && bool_op(&dom, want, |d, m| d && !m).len() <= 64 {
            catch(|| set.iter_ranges().map(|r| (r.start().to_u32() as u64, r.end().to_u32() as u64)).collect::<Vec<Iv>>()).ok()
        } else { None };
        if let Some(fr) = &full_ranges {
            let shape = fr.iter().all(|(a, b)| a <= b) && fr.windows(2).all(|w| w[0].1 < w[1].0);
            let members = bool_op(&norm(fr.clone()), &dom, |x, d| x && d);
            let exact = !dom_cont || fr == want;
            s.oracle("intset-iter_ranges=maximal-member-runs", shape && members == *want && exact, input, || format!("{fr:?} want {want:?}"));
            let fx: Vec<Iv> = set.iter_excluded_ranges().map(|r| (r.start().to_u32() as u64, r.end().to_u32() as u64)).collect();
            let non = bool_op(&dom, want, |d, m| d && !m);
            let xm = bool_op(&norm(fx.clone()), &dom, |x, d| x && d);
            s.oracle("intset-iter_excluded_ranges=maximal-nonmember-runs", xm == non && (!dom_cont || fx == non), input, || format!("{fx:?} want {non:?}"));
        }
        for (q, eq, cmp, heq, xs) in &others {
            let wq = &self.refs[*q];
            let input2 = || format!("IntSet<{}> ops [{history}] registers {r},{q}", T::NAME);
            s.oracle("intset-eq=same-members", *eq == (want == wq), input2, || format!("== is {eq}"));
            s.oracle("intset-hash-agrees-with-eq", *heq == (want == wq), input2, || format!("hash equal: {heq}, members equal: {}", want == wq));
            s.oracle("intset-cmp=lexicographic-on-members", *cmp == ref_cmp(want, wq), input2, || format!("cmp {cmp:?} want {:?}", ref_cmp(want, wq)));
            s.oracle("intset-intersects_set=nonempty-meet", *xs == !bool_op(want, wq, |x, y| x && y).is_empty(), input2, || format!("intersects_set {xs}"));
        }
        // ---- canonical observation string (identical layout in Drv/C14.lean) ----
        let opt = |v: Option<u32>| v.map(|x| x.to_string()).unwrap_or("n".into());
        let pr = |v: &[(u32, u32)]| if v.is_empty() { "-".to_string() } else { v.iter().map(|(a, b)| format!("{a}:{b}")).collect::<Vec<_>>().join(",") };
        let ord = |o: std::cmp::Ordering| match o { std::cmp::Ordering::Less => "l", std::cmp::Ordering::Equal => "e", _ => "g" };
        [
            ret.to_string(),
            bit(inv).to_string(),
            len,
            opt(first),
            opt(last),
            nats(&fwd),
            nats(&back),
            pr(&ranges),
            pr(&ex),
            contains.iter().map(|c| bit(*c)).collect::<String>(),
            afters.iter().map(|a| nats(a)).collect::<Vec<_>>().join("/"),
            ir.iter().map(|(x, y)| format!("{}{}", bit(*x), bit(*y))).collect::<String>(),
            others.iter().map(|(_, eq, cmp, heq, xs)| format!("e{}c{}h{}x{}", bit(*eq), ord(*cmp), bit(*heq), bit(*xs))).collect::<String>(),
        ]
        .join(";")
    }
}

#[derive(Clone, Debug)]
enum Op {
    Insert(usize, u32),
    Remove(usize, u32),
    InsertRange(usize, u32, u32),
    RemoveRange(usize, u32, u32),
    Extend(usize, Vec<u32>),
    RemoveAll(usize, Vec<u32>),
    Union(usize, usize),
    Intersect(usize, usize),
    Subtract(usize, usize),
    Copy(usize, usize),
    Invert(usize),
    Clear(usize),
    All(usize),
    Empty(usize),
}

impl Op {
    fn token(&self) -> String {
        match self {
            Op::Insert(r, v) => format!("i{r}:{v}"),
            Op::Remove(r, v) => format!("d{r}:{v}"),
            Op::InsertRange(r, a, b) => format!("I{r}:{a}:{b}"),
            Op::RemoveRange(r, a, b) => format!("D{r}:{a}:{b}"),
            Op::Extend(r, v) => format!("x{r}:{}", nats(v)),
            Op::RemoveAll(r, v) => format!("X{r}:{}", nats(v)),
            Op::Union(r, q) => format!("u{r}:{q}"),
            Op::Intersect(r, q) => format!("n{r}:{q}"),
            Op::Subtract(r, q) => format!("s{r}:{q}"),
            Op::Copy(r, q) => format!("k{r}:{q}"),
            Op::Invert(r) => format!("v{r}"),
            Op::Clear(r) => format!("c{r}"),
            Op::All(r) => format!("a{r}"),
            Op::Empty(r) => format!("e{r}"),
        }
    }
    fn target(&self) -> usize {
        match self {
            Op::Insert(r, _) | Op::Remove(r, _) | Op::InsertRange(r, _, _) | Op::RemoveRange(r, _, _) | Op::Extend(r, _)
            | Op::RemoveAll(r, _) | Op::Union(r, _) | Op::Intersect(r, _) | Op::Subtract(r, _) | Op::Copy(r, _)
            | Op::Invert(r) | Op::Clear(r) | Op::All(r) | Op::Empty(r) => *r,
        }
    }
    fn values(&self) -> Vec<u32> {
        match self {
            Op::Insert(_, v) | Op::Remove(_, v) => vec![*v],
            Op::InsertRange(_, a, b) | Op::RemoveRange(_, a, b) => vec![*a, *b],
            Op::Extend(_, v) | Op::RemoveAll(_, v) => v.clone(),
            _ => vec![],
        }
    }
}

fn dom_clip(dom: &[Iv], a: u32, b: u32) -> Vec<Iv> {
    if a > b { vec![] } else { bool_op(dom, &[(a as u64, b as u64)], |x, y| x && y) }
}

/// run one op sequence on the real sets and the reference; returns the per-op observations
fn run_sequence<T: Dom>(s: &mut Session, group: &'static str, ops: &[Op]) {
    let dom = T::dom();
    let in_dom = |v: u32| iv_mem(&dom, v as u64);
    // probes: domain boundary + op operands ±1, in-domain, sorted, capped
    let mut probes: Vec<u32> = vec![];
    for op in ops {
        for v in op.values() {
            for d in [-1i64, 0, 1] {
                let x = v as i64 + d;
                if x >= 0 && x <= u32::MAX as i64 && in_dom(x as u32) {
                    probes.push(x as u32);
                }
            }
        }
    }
    probes.sort();
    probes.dedup();
    if probes.len() > 10 {
        let step = probes.len() as f64 / 10.0;
        probes = (0..10).map(|i| probes[(i as f64 * step) as usize]).collect();
    }
    let b = T::boundary();
    for v in [b[0], b[b.len() / 2], b[b.len() - 1]] {
        probes.push(v);
    }
    probes.sort();
    probes.dedup();
    let mut m: Machine<T> = Machine { real: [IntSet::empty(), IntSet::empty(), IntSet::empty()], refs: [vec![], vec![], vec![]], probes: probes.clone() };
    let mut obs: Vec<String> = vec![];
    let mut obs_c: Vec<String> = vec![];
    let mut hist = String::new();
    let mut applied = 0usize;
    for op in ops {
        if !hist.is_empty() {
            hist.push(' ');
        }
        hist.push_str(&op.token());
        let r = op.target();
        let ret: Result<String, String> = catch(|| {
            let bs = |b: bool| if b { "t".to_string() } else { "f".to_string() };
            match op {
                Op::Insert(r, v) => bs(m.real[*r].insert(T::mk(*v))),
                Op::Remove(r, v) => bs(m.real[*r].remove(T::mk(*v))),
                Op::InsertRange(r, a, b) => { m.real[*r].insert_range(T::mk(*a)..=T::mk(*b)); "-".into() }
                Op::RemoveRange(r, a, b) => { m.real[*r].remove_range(T::mk(*a)..=T::mk(*b)); "-".into() }
                Op::Extend(r, v) => {
                    if v.len() % 2 == 0 { m.real[*r].extend(v.iter().map(|x| T::mk(*x))); } else { m.real[*r].extend_unsorted(v.iter().map(|x| T::mk(*x))); }
                    "-".into()
                }
                Op::RemoveAll(r, v) => { m.real[*r].remove_all(v.iter().map(|x| T::mk(*x))); "-".into() }
                Op::Union(r, q) => { let o = m.real[*q].clone(); m.real[*r].union(&o); "-".into() }
                Op::Intersect(r, q) => { let o = m.real[*q].clone(); m.real[*r].intersect(&o); "-".into() }
                Op::Subtract(r, q) => { let o = m.real[*q].clone(); m.real[*r].subtract(&o); "-".into() }
                Op::Copy(r, q) => { m.real[*r] = m.real[*q].clone(); "-".into() }
                Op::Invert(r) => { m.real[*r].invert(); "-".into() }
                Op::Clear(r) => { m.real[*r].clear(); "-".into() }
                Op::All(r) => { m.real[*r] = IntSet::all(); "-".into() }
                Op::Empty(r) => { m.real[*r] = IntSet::empty(); "-".into() }
            }
        });
        // reference
        let old = m.refs[r].clone();
        let (new, want_ret): (Vec<Iv>, Option<bool>) = match op {
            Op::Insert(_, v) => (bool_op(&old, &[(*v as u64, *v as u64)], |x, y| x || y), Some(!iv_mem(&old, *v as u64))),
            Op::Remove(_, v) => (bool_op(&old, &[(*v as u64, *v as u64)], |x, y| x && !y), Some(iv_mem(&old, *v as u64))),
            Op::InsertRange(_, a, b) => (bool_op(&old, &dom_clip(&dom, *a, *b), |x, y| x || y), None),
            Op::RemoveRange(_, a, b) => (bool_op(&old, &dom_clip(&dom, *a, *b), |x, y| x && !y), None),
            Op::Extend(_, v) => (bool_op(&old, &norm(v.iter().map(|x| (*x as u64, *x as u64)).collect()), |x, y| x || y), None),
            Op::RemoveAll(_, v) => (bool_op(&old, &norm(v.iter().map(|x| (*x as u64, *x as u64)).collect()), |x, y| x && !y), None),
            Op::Union(_, q) => (bool_op(&old, &m.refs[*q], |x, y| x || y), None),
            Op::Intersect(_, q) => (bool_op(&old, &m.refs[*q], |x, y| x && y), None),
            Op::Subtract(_, q) => (bool_op(&old, &m.refs[*q], |x, y| x && !y), None),
            Op::Copy(_, q) => (m.refs[*q].clone(), None),
            Op::Invert(_) => (bool_op(&dom, &old, |d, x| d && !x), None),
            Op::Clear(_) | Op::Empty(_) => (vec![], None),
            Op::All(_) => (dom.clone(), None),
        };
        // Iterating an inverted set walks every excluded value (documented in mod.rs: "iteration of inverted
        // sets can be extremely slow"): a state whose stored complement is huge is not observable in bounded
        // time, so the sequence ends before the op that creates it.
        if m.real[r].is_inverted() && iv_len(&dom) - iv_len(&new) > 3_000_000 {
            s.count("intset.sequence-cut-before-heavy-inverted-state");
            break;
        }
        m.refs[r] = new;
        applied += 1;
        match ret {
            Ok(ret) => {
                if let Some(w) = want_ret {
                    s.oracle("intset-insert/remove-return=changed", ret == if w { "t" } else { "f" },
                        || format!("IntSet<{}> ops [{hist}]", T::NAME), || format!("returned {ret}"));
                }
                let t0 = std::time::Instant::now();
                if std::env::var_os("C14_TRACE_ALL").is_some() {
                    eprintln!("observe: IntSet<{}> ops [{hist}]", T::NAME);
                }
                let o = m.observe(s, r, &ret, &hist);
                obs_c.push(conc_observe::<T>(s, &m.real[r], &probes, &ret, &hist));
                if t0.elapsed().as_millis() > 500 && std::env::var_os("C14_TRACE").is_some() {
                    eprintln!("slow observe {} ms: IntSet<{}> ops [{hist}]", t0.elapsed().as_millis(), T::NAME);
                }
                obs.push(o);
            }
            Err(e) => {
                s.oracle("intset-mutators-never-panic", false, || format!("IntSet<{}> ops [{hist}]", T::NAME), || e.clone());
                obs.push("panic".into());
                break;
            }
        }
        s.count(&format!("intset.op:{}", &op.token()[..1]));
        s.count(&format!("intset.mode:{}", if m.real[r].is_inverted() { "exclusive" } else { "inclusive" }));
    }
    let req = format!("is.run {} {} {}", T::NAME, nats(&probes), ops[..applied].iter().map(|o| o.token()).collect::<Vec<_>>().join(" "));
    s.case(group, req, if obs.is_empty() { "-".into() } else { obs.join(" | ") });
    // the same history against the CONCRETE model (pages vector + page_map, in-place process)
    let n_c = obs_c.len();
    let req_c = format!("isc.run {} {} {}", T::NAME, nats(&probes), ops[..n_c].iter().map(|o| o.token()).collect::<Vec<_>>().join(" "));
    let group_c: &'static str = match group {
        "intset.exhaustive" => "intset.exhaustive.conc",
        "intset.u32" => "intset.u32.conc",
        "intset.u16" => "intset.u16.conc",
        "intset.u8" => "intset.u8.conc",
        "intset.gid16" => "intset.gid16.conc",
        "intset.disc" => "intset.disc.conc",
        "intset.ooo" => "intset.ooo.conc",
        _ => "intset.other.conc",
    };
    s.case(group_c, req_c, if obs_c.is_empty() { "-".into() } else { obs_c.join(" | ") });
}

/// histories that create pages OUT OF MAJOR ORDER on both operands, leave empty pages behind, then
/// call process (union / intersect / subtract, also through inverted operands = reversed_subtract)
/// and keep inserting afterwards; `shape == 0` is the minimal shape seeded change C14-2 needed
/// (left pages created in descending major order, intersect keeps a proper subset).
fn gen_ooo<T: Dom>(rng: &mut Rng, shape: u64) -> Vec<Op> {
    let max_major: u32 = if T::NAME == "u32" { 40 } else { 100 };
    let val = |m: u32, off: u32| m * 512 + off;
    if shape == 0 {
        return vec![Op::Insert(0, val(3, 464)), Op::Insert(0, val(0, 5)), Op::Insert(0, val(1, 488)),
            Op::Insert(1, val(1, 489)), Op::Insert(1, val(0, 7)), Op::Intersect(0, 1), Op::Insert(0, val(2, 1)), Op::Subtract(0, 1)];
    }
    let mut ops = vec![];
    let mut majors: Vec<u32> = (0..(3 + rng.below(7) as u32)).map(|_| rng.below(max_major as u64) as u32).collect();
    majors.dedup();
    let offs = [0u32, 1, 63, 64, 255, 448, 510, 511];
    for reg in 0..2usize {
        // a shuffled subset of the majors per register (shared majors make Equal cases)
        let mut ms: Vec<u32> = majors.iter().copied().filter(|_| rng.chance(2, 3)).collect();
        for extra in 0..rng.below(3) { ms.push((rng.below(max_major as u64) as u32 + extra as u32) % max_major); }
        for i in (1..ms.len()).rev() { let j = rng.below(i as u64 + 1) as usize; ms.swap(i, j); }
        for m in &ms {
            let off = offs[rng.below(offs.len() as u64) as usize];
            match rng.below(6) {
                0 => ops.push(Op::InsertRange(reg, val(*m, off), val(*m, 511) + rng.below(3) as u32 * 300)),
                1 => ops.push(Op::Extend(reg, vec![val(*m, off), val(*m, (off + 7) % 512)])),
                _ => ops.push(Op::Insert(reg, val(*m, off))),
            }
            if rng.chance(1, 4) { ops.push(Op::Remove(reg, val(*m, off))); } // may leave an empty page
        }
    }
    for round in 0..(1 + rng.below(3)) {
        if rng.chance(1, 4) { ops.push(Op::Invert(rng.below(2) as usize)); }
        let (r, q) = if rng.chance(1, 2) { (0, 1) } else { (1, 0) };
        ops.push(match rng.below(3) { 0 => Op::Union(r, q), 1 => Op::Intersect(r, q), _ => Op::Subtract(r, q) });
        // interleave: new pages after a process, then process again
        for _ in 0..rng.below(4) {
            let m = rng.below(max_major as u64) as u32;
            ops.push(Op::Insert(rng.below(2) as usize, val(m, offs[rng.below(offs.len() as u64) as usize])));
        }
        if round == 0 && rng.chance(1, 3) { ops.push(Op::Copy(2, r)); ops.push(Op::Intersect(2, q)); }
    }
    ops
}

fn pick_val<T: Dom>(rng: &mut Rng) -> u32 {
    let dom = T::dom();
    let b = T::boundary();
    loop {
        let v = if rng.chance(3, 4) {
            *rng.pick(&b)
        } else {
            let (lo, hi) = *rng.pick(&dom);
            let near = *rng.pick(&b) as u64;
            let x = if rng.chance(1, 2) { near.saturating_add(rng.below(600)) } else { lo + rng.below(hi - lo + 1) };
            x.clamp(lo, hi) as u32
        };
        if iv_mem(&dom, v as u64) {
            return v;
        }
    }
}

/// `wide_ok`: whether a wide range is cheap for this op on the current mode (no page creation)
fn pick_range<T: Dom>(rng: &mut Rng, wide_ok: bool) -> (u32, u32) {
    let a = pick_val::<T>(rng);
    let b = pick_val::<T>(rng);
    let (mut a, mut b) = if a <= b || rng.chance(1, 10) { (a, b) } else { (b, a) };
    if !wide_ok && b > a && b - a > 1600 {
        // keep the number of materialised pages small
        let dom = T::dom();
        let mut nb = a.saturating_add(rng.below(1600) as u32);
        while !iv_mem(&dom, nb as u64) {
            nb -= 1;
        }
        b = nb;
    }
    if rng.chance(1, 40) {
        std::mem::swap(&mut a, &mut b);
        // a reversed (empty) range that the swap turns into a wide one would materialise / walk
        // billions of values in the mode where wide ranges are not cheap
        if !wide_ok && b > a && b - a > 1600 {
            std::mem::swap(&mut a, &mut b);
        }
    }
    (a, b)
}

fn gen_sequence<T: Dom>(rng: &mut Rng, len: usize) -> Vec<Op> {
    // mode tracking (to bound page materialisation): inverted flags mirror the mode tables
    let mut inv = [false; 3];
    let mut ops = vec![];
    for _ in 0..len {
        let r = if rng.chance(3, 5) { 0 } else { 1 + rng.below(2) as usize };
        let q = (r + 1 + rng.below(2) as usize) % 3;
        let op = match rng.below(20) {
            0..=3 => Op::Insert(r, pick_val::<T>(rng)),
            4..=6 => Op::Remove(r, pick_val::<T>(rng)),
            7..=8 => { let (a, b) = pick_range::<T>(rng, inv[r]); Op::InsertRange(r, a, b) }
            9..=10 => { let (a, b) = pick_range::<T>(rng, !inv[r]); Op::RemoveRange(r, a, b) }
            11 => Op::Extend(r, (0..rng.below(5)).map(|_| pick_val::<T>(rng)).collect()),
            12 => Op::RemoveAll(r, (0..rng.below(5)).map(|_| pick_val::<T>(rng)).collect()),
            13 => Op::Union(r, q),
            14 => Op::Intersect(r, q),
            15 => Op::Subtract(r, q),
            16..=17 => Op::Invert(r),
            18 => if rng.chance(1, 2) { Op::Copy(r, q) } else { Op::Clear(r) },
            _ => if rng.chance(1, 2) { Op::All(r) } else { Op::Empty(r) },
        };
        match &op {
            Op::Union(r, q) => inv[*r] = inv[*r] || inv[*q],
            Op::Intersect(r, q) => inv[*r] = inv[*r] && inv[*q],
            Op::Subtract(r, q) => inv[*r] = inv[*r] && !inv[*q],
            Op::Copy(r, q) => inv[*r] = inv[*q],
            Op::Invert(r) => inv[*r] = !inv[*r],
            Op::Clear(r) | Op::Empty(r) => inv[*r] = false,
            Op::All(r) => inv[*r] = true,
            _ => {}
        }
        ops.push(op);
    }
    ops
}

/// exhaustive short sequences on register 0 over a small op alphabet spanning page edges; register 1
/// is preloaded with a fixed mixed set so that the binary ops see both modes
fn exhaustive<T: Dom>(s: &mut Session, depth: usize) {
    let b = T::boundary();
    let pts: Vec<u32> = if T::NAME == "u32" { vec![0, 511, 512, 513, 1024, u32::MAX - 1, u32::MAX] } else { vec![b[0], b[1], b[b.len() / 2], b[b.len() - 2], b[b.len() - 1]] };
    let mut alpha: Vec<Op> = vec![];
    for p in &pts {
        alpha.push(Op::Insert(0, *p));
        alpha.push(Op::Remove(0, *p));
    }
    for w in pts.windows(2) {
        if w[1] - w[0] < 2000 {
            alpha.push(Op::InsertRange(0, w[0], w[1]));
            alpha.push(Op::RemoveRange(0, w[0], w[1]));
        }
    }
    alpha.extend([Op::Invert(0), Op::Clear(0), Op::Union(0, 1), Op::Intersect(0, 1), Op::Subtract(0, 1), Op::Union(0, 2), Op::Intersect(0, 2), Op::Subtract(0, 2)]);
    let prelude = vec![Op::InsertRange(1, pts[1], pts[2]), Op::Insert(1, pts[0]), Op::All(2), Op::Remove(2, pts[2]), Op::Remove(2, pts[pts.len() - 1])];
    let n = alpha.len();
    let total = n.pow(depth as u32);
    for idx in 0..total {
        let mut k = idx;
        let mut ops = prelude.clone();
        for _ in 0..depth {
            ops.push(alpha[k % n].clone());
            k /= n;
        }
        run_sequence::<T>(s, "intset.exhaustive", &ops);
    }
}

fn run_intset(cfg: &Config, s: &mut Session, rng: &mut Rng) {
    let depth = if cfg.thorough() { 3 } else { 2 };
    exhaustive::<u32>(s, depth);
    exhaustive::<u16>(s, 2);
    exhaustive::<u8>(s, 2);
    exhaustive::<Disc>(s, 2);
    let n_ooo = if cfg.thorough() { 2000 } else { 200 };
    for i in 0..n_ooo {
        if i % 3 == 2 { let ops = gen_ooo::<u16>(rng, i); run_sequence::<u16>(s, "intset.ooo", &ops); }
        else { let ops = gen_ooo::<u32>(rng, i); run_sequence::<u32>(s, "intset.ooo", &ops); }
    }
    let n = if cfg.thorough() { 1500 } else { 120 };
    for i in 0..n {
        let len = if i % 10 == 0 { 150 + rng.below(150) as usize } else { 5 + rng.below(40) as usize };
        match i % 8 {
            0 | 1 | 2 => { let ops = gen_sequence::<u32>(rng, len); run_sequence::<u32>(s, "intset.u32", &ops); }
            3 => { let ops = gen_sequence::<u16>(rng, len); run_sequence::<u16>(s, "intset.u16", &ops); }
            4 => { let ops = gen_sequence::<u8>(rng, len); run_sequence::<u8>(s, "intset.u8", &ops); }
            5 => { let ops = gen_sequence::<GlyphId16>(rng, len); run_sequence::<GlyphId16>(s, "intset.gid16", &ops); }
            _ => { let ops = gen_sequence::<Disc>(rng, len); run_sequence::<Disc>(s, "intset.disc", &ops); }
        }
    }
}

fn main() {
    fv_harness::main_with("C14", run);
}

fn run(cfg: &Config, s: &mut Session) {
    let mut rng = Rng::new(cfg.seed);
    // C14_ONLY=rs|codec|is restricts the run while developing
    let only = std::env::var("C14_ONLY").unwrap_or_default();
    for (name, f) in [("rs", run_rangeset as fn(&Config, &mut Session, &mut Rng)), ("codec", run_codec), ("is", run_intset)] {
        if only.is_empty() || only == name {
            if let Err(e) = catch(|| f(cfg, s, &mut rng)) {
                s.oracle("harness-internal-panic", false, || name.to_string(), || e.clone());
            }
        }
    }
}
