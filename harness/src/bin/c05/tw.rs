//! C04 ⇄ C05 bridge — `TableWriter` / `ObjectStore` (write-fonts/src/write.rs, offsets.rs, graph.rs `ObjectStore::add`,
//! `Graph::from_obj_store`) against Model/TableWriter.lean.  Shared by the c05 and c04 binaries (`#[path]` include).
//!
//! A *value tree* (`VTable`) is a `FontWrite` value given by the calls its `write_into` makes; its `FontWrite` impl below
//! makes exactly those calls on the REAL `TableWriter` (`write_slice`, the real `OffsetMarker` / `NullableOffsetMarker`
//! for widths 2/3/4, `write_offset` for other widths, `adjust_offsets` through the cfg hook, `pad_to_2byte_aligned`).
//!
//! Correspondence: `tw.store` (the object store the real writer built — ids up to renaming by allocation order, type,
//! bytes, offset records — vs `writeTable`), `tw.dump` (pack + serialize), `tw.read` (the Lean nested reader on the REAL
//! compiled bytes).  Oracles on the real code only: see `check_tree`.
use fv_harness::common::*;
use std::collections::{BTreeMap, BTreeSet, HashMap};
use write_fonts::verif_hooks::VGraph;
use write_fonts::write_verif_hooks::{with_offset_adjustment as adjust_offsets, TableType};
use write_fonts::{FontWrite, NullableOffsetMarker, OffsetMarker, TableWriter};

#[derive(Clone, Copy, Debug, PartialEq, Eq, Hash, PartialOrd, Ord)]
pub enum Ty {
    Other,
    Gpos(u16),
    Gsub(u16),
}

#[derive(Clone, Debug, PartialEq, Eq, Hash)]
pub enum F {
    Bytes(Vec<u8>),
    Null(usize),
    Link(usize, Ty, Vec<F>),
    Adjust(u32, Vec<F>),
    Pad2,
}

#[derive(Clone, Debug, PartialEq, Eq, Hash)]
pub struct VTable {
    pub ty: Ty,
    pub fields: Vec<F>,
}

fn write_fields(fs: &[F], w: &mut TableWriter, alt: &mut bool) {
    for f in fs {
        match f {
            F::Bytes(b) => w.write_slice(b),
            F::Null(n) => match n {
                2 => NullableOffsetMarker::<VTable, 2>::new(None).write_into(w),
                3 => NullableOffsetMarker::<VTable, 3>::new(None).write_into(w),
                4 => NullableOffsetMarker::<VTable, 4>::new(None).write_into(w),
                // no marker type of that width exists in write-fonts: what `[0u8; N]` would write
                _ => w.write_slice(&vec![0u8; *n]),
            },
            F::Link(n, ty, child) => {
                let c = VTable { ty: *ty, fields: child.clone() };
                *alt = !*alt;
                match (n, *alt) {
                    (2, true) => OffsetMarker::<VTable, 2>::new(c).write_into(w),
                    (3, true) => OffsetMarker::<VTable, 3>::new(c).write_into(w),
                    (4, true) => OffsetMarker::<VTable, 4>::new(c).write_into(w),
                    (2, false) => NullableOffsetMarker::<VTable, 2>::new(Some(c)).write_into(w),
                    (3, false) => NullableOffsetMarker::<VTable, 3>::new(Some(c)).write_into(w),
                    (4, false) => NullableOffsetMarker::<VTable, 4>::new(Some(c)).write_into(w),
                    _ => w.write_offset(&c, *n),
                }
            }
            F::Adjust(a, body) => adjust_offsets(w, *a, |w| write_fields(body, w, alt)),
            F::Pad2 => w.pad_to_2byte_aligned(),
        }
    }
}

impl FontWrite for VTable {
    fn write_into(&self, writer: &mut TableWriter) {
        let mut alt = false;
        write_fields(&self.fields, writer, &mut alt)
    }
    fn table_type(&self) -> TableType {
        match self.ty {
            Ty::Other => TableType::Unknown,
            Ty::Gpos(t) => TableType::GposLookup(t),
            Ty::Gsub(t) => TableType::GsubLookup(t),
        }
    }
}

// ---------------------------------------------------------------------------------------------
// rendering (identical to Drv/TableWriter.lean)

pub fn rle(bs: &[u8]) -> String {
    if bs.is_empty() {
        return "-".into();
    }
    let mut segs: Vec<String> = vec![];
    let mut lit = String::new();
    let mut i = 0;
    while i < bs.len() {
        let b = bs[i];
        let mut n = 1;
        while i + n < bs.len() && bs[i + n] == b {
            n += 1;
        }
        if n >= 8 {
            if !lit.is_empty() {
                segs.push(format!("h{lit}"));
                lit.clear();
            }
            segs.push(format!("r{b:02x}x{n}"));
        } else {
            for _ in 0..n {
                lit.push_str(&format!("{b:02x}"));
            }
        }
        i += n;
    }
    if !lit.is_empty() {
        segs.push(format!("h{lit}"));
    }
    segs.join(",")
}

pub fn ty_token(t: Ty) -> String {
    match t {
        Ty::Other => "o".into(),
        Ty::Gpos(n) => format!("p{n}"),
        Ty::Gsub(n) => format!("s{n}"),
    }
}

/// `GPOS5MarkToLig` -> `p5`, `GSUB7Extension` -> `s7`, anything else -> `o`
pub fn type_name_token(name: &str) -> String {
    let (k, rest) = if let Some(r) = name.strip_prefix("GPOS") {
        ('p', r)
    } else if let Some(r) = name.strip_prefix("GSUB") {
        ('s', r)
    } else {
        return "o".into();
    };
    let digits: String = rest.chars().take_while(|c| c.is_ascii_digit()).collect();
    if digits.is_empty() {
        "o".into()
    } else {
        format!("{k}{digits}")
    }
}

fn render_fields(fs: &[F], out: &mut Vec<String>) {
    for f in fs {
        match f {
            F::Bytes(b) => out.push(format!("b{}", rle(b))),
            F::Null(n) => out.push(format!("n{n}")),
            F::Link(n, ty, child) => {
                out.push(format!("l{n}:{}", ty_token(*ty)));
                render_fields(child, out);
                out.push(".".into());
            }
            F::Adjust(a, body) => {
                out.push(format!("a{a}"));
                render_fields(body, out);
                out.push(".".into());
            }
            F::Pad2 => out.push("p".into()),
        }
    }
}

pub fn render(t: &VTable) -> String {
    let mut toks = vec![ty_token(t.ty)];
    render_fields(&t.fields, &mut toks);
    toks.join(" ")
}

// ---------------------------------------------------------------------------------------------
// the reader's view (independent of the Lean model)

#[derive(Clone, Debug, PartialEq, Eq, Hash)]
pub struct Tree {
    pub bytes: Vec<u8>,
    pub kids: Vec<Tree>,
}

pub fn show_tree(t: &Tree) -> String {
    let mut s = format!("({}", rle(&t.bytes));
    for k in &t.kids {
        s.push(' ');
        s.push_str(&show_tree(k));
    }
    s.push(')');
    s
}

fn len_of(width: usize) -> usize {
    match width {
        2 => 2,
        3 => 3,
        _ => 4,
    }
}

/// A tree is *scoped* if `adjust_offsets` is used the way its documentation intends: the offsets written in the block
/// belong to the table that opened the block — the children written inside a block write no offsets and open no block
/// themselves, blocks are not nested, and every slot is 2..4 bytes wide.  For scoped trees the adjustment of a slot is
/// the lexically enclosing block's (0 outside), which is what the property's oracles use.
pub fn is_scoped(fs: &[F], in_block: bool, in_block_child: bool) -> bool {
    // `serialize` subtracts `position(parent) + adjustment` from `position(child)` (checked): an adjustment beyond the
    // parent's own length is outside the writer's contract (the name table's is the length of its fixed part)
    let total = if in_block { u32::MAX } else { flat_len(fs, 0) as u32 };
    fs.iter().all(|f| match f {
        F::Bytes(_) | F::Pad2 => true,
        F::Null(n) => (2..=4).contains(n),
        F::Link(n, _, child) => (2..=4).contains(n) && !in_block_child && is_scoped(child, false, in_block || in_block_child),
        F::Adjust(a, body) => !in_block && !in_block_child && *a <= total && is_scoped(body, true, false),
    })
}

/// the value as a reader is meant to see it (lexical adjustments): bytes with the non-null slots blanked, null slots as
/// zeros, children in slot order
pub fn tree_of(fs: &[F]) -> Tree {
    let mut bytes = vec![];
    let mut kids = vec![];
    fn go(fs: &[F], bytes: &mut Vec<u8>, kids: &mut Vec<Tree>) {
        for f in fs {
            match f {
                F::Bytes(b) => bytes.extend_from_slice(b),
                F::Null(n) => bytes.extend(std::iter::repeat(0u8).take(*n)),
                F::Link(n, _, child) => {
                    bytes.extend(std::iter::repeat(0u8).take((*n).min(4)));
                    kids.push(tree_of(child));
                }
                F::Adjust(_, body) => go(body, bytes, kids),
                F::Pad2 => {
                    if bytes.len() % 2 != 0 {
                        bytes.push(0)
                    }
                }
            }
        }
    }
    go(fs, &mut bytes, &mut kids);
    Tree { bytes, kids }
}

/// the nested reader: read `out` from `hd`, guided by the shape of the value only (lengths, slots, widths, lexical
/// adjustments); every non-null slot is followed: child at `hd + adjustment + stored value`
pub fn read_tree(out: &[u8], hd: usize, fs: &[F]) -> Result<Tree, String> {
    let mut bytes = vec![];
    let mut kids = vec![];
    fn go(out: &[u8], hd: usize, fs: &[F], adj: u32, bytes: &mut Vec<u8>, kids: &mut Vec<Tree>) -> Result<(), String> {
        let take = |bytes: &mut Vec<u8>, n: usize| -> Result<(), String> {
            let at = hd + bytes.len();
            let sl = out.get(at..at + n).ok_or_else(|| format!("table at {hd}: bytes {at}..{} outside the output ({})", at + n, out.len()))?;
            bytes.extend_from_slice(sl);
            Ok(())
        };
        for f in fs {
            match f {
                F::Bytes(b) => take(bytes, b.len())?,
                F::Null(n) => take(bytes, *n)?,
                F::Link(n, _, child) => {
                    let at = hd + bytes.len();
                    let w = len_of(*n);
                    let sl = out.get(at..at + w).ok_or_else(|| format!("table at {hd}: offset slot at {at} outside the output"))?;
                    let v = sl.iter().fold(0usize, |a, b| (a << 8) | *b as usize);
                    bytes.extend(std::iter::repeat(0u8).take((*n).min(4)));
                    if v == 0 && adj == 0 {
                        return Err(format!("table at {hd}: non-null slot at {at} holds 0 (a null offset)"));
                    }
                    kids.push(read_tree(out, hd + adj as usize + v, child)?);
                }
                F::Adjust(a, body) => go(out, hd, body, *a, bytes, kids)?,
                F::Pad2 => {
                    if bytes.len() % 2 != 0 {
                        take(bytes, 1)?
                    }
                }
            }
        }
        Ok(())
    }
    go(out, hd, fs, 0, &mut bytes, &mut kids)?;
    // the reader returns the bytes it finds; slots were blanked above, everything else is the output's
    Ok(Tree { bytes, kids })
}

// ---------------------------------------------------------------------------------------------
// the real object store

#[derive(Clone, Debug, PartialEq, Eq)]
pub struct SObj {
    pub ty: String,
    pub bytes: Vec<u8>,
    /// (pos, width, target rank, adjustment)
    pub links: Vec<(u32, u8, usize, u32)>,
}

pub struct RealStore {
    pub root: usize,
    pub objs: Vec<SObj>,
    pub graph: VGraph,
}

/// run the REAL `TableWriter::make_graph` and read the object store back; ids are replaced by their rank in ascending
/// order (= allocation order: the global counter only grows)
pub fn real_store(table: &impl FontWrite) -> RealStore {
    let g = VGraph::from_table(table);
    let views = g.objects();
    let rank: HashMap<u64, usize> = views.iter().enumerate().map(|(i, o)| (o.id, i)).collect();
    let objs = views
        .iter()
        .map(|o| SObj {
            ty: type_name_token(&o.type_name),
            bytes: o.bytes.clone(),
            links: o.links.iter().map(|(p, w, t, a)| (*p, *w, *rank.get(t).unwrap_or(&usize::MAX), *a)).collect(),
        })
        .collect();
    RealStore { root: rank[&g.root()], objs, graph: g }
}

pub fn show_store(st: &RealStore) -> String {
    let mut parts = vec![format!("root={}", st.root)];
    for (i, o) in st.objs.iter().enumerate() {
        let links = if o.links.is_empty() {
            "-".to_string()
        } else {
            o.links.iter().map(|(p, w, t, a)| format!("{p}/{w}/{t}/{a}")).collect::<Vec<_>>().join(";")
        };
        parts.push(format!("{i}:{}:{}:{}", o.ty, rle(&o.bytes), links));
    }
    parts.join(" | ")
}

/// unfold the store from object `i` (bytes with link fields blanked, children in link order)
pub fn unfold(objs: &[SObj], i: usize, depth: usize) -> Result<Tree, String> {
    if depth > 64 {
        return Err("unfolding deeper than 64 levels (cycle?)".into());
    }
    let o = objs.get(i).ok_or_else(|| format!("link to a missing object {i}"))?;
    let mut bytes = o.bytes.clone();
    let mut kids = vec![];
    for (p, w, t, _) in &o.links {
        for k in 0..*w as usize {
            match bytes.get_mut(*p as usize + k) {
                Some(b) => *b = 0,
                None => return Err(format!("object {i}: link field {p}+{w} outside its {} bytes", o.bytes.len())),
            }
        }
        kids.push(unfold(objs, *t, depth + 1)?);
    }
    Ok(Tree { bytes, kids })
}

/// read `out` from `hd` guided by the shapes of the store's objects (what C05's `readBack` does)
pub fn read_store(out: &[u8], objs: &[SObj], i: usize, hd: usize, depth: usize) -> Result<Tree, String> {
    if depth > 64 {
        return Err("deeper than 64 levels".into());
    }
    let o = objs.get(i).ok_or_else(|| format!("link to a missing object {i}"))?;
    let mut bytes = out.get(hd..hd + o.bytes.len()).ok_or_else(|| format!("object {i} at {hd} (len {}) outside the output ({})", o.bytes.len(), out.len()))?.to_vec();
    let mut kids = vec![];
    for (p, w, t, a) in &o.links {
        let at = *p as usize;
        let sl = bytes.get(at..at + *w as usize).ok_or_else(|| format!("object {i}: link field outside the object"))?;
        let v = sl.iter().fold(0usize, |acc, b| (acc << 8) | *b as usize);
        kids.push((at, *w as usize, read_store(out, objs, *t, hd + *a as usize + v, depth + 1)?));
    }
    let mut ks = vec![];
    for (at, w, k) in kids {
        for j in 0..w {
            bytes[at + j] = 0;
        }
        ks.push(k);
    }
    Ok(Tree { bytes, kids: ks })
}

/// what `TableData` / `ObjectStore` guarantee (C05's `ObjWF` + closed + acyclic + no two equal keys + all reachable)
pub fn store_wf(st: &RealStore) -> Result<(), String> {
    let mut keys = BTreeSet::new();
    for (i, o) in st.objs.iter().enumerate() {
        let mut end = 0u32;
        for (p, w, t, _) in &o.links {
            if !(2..=4).contains(w) {
                return Err(format!("object {i}: link width {w}"));
            }
            if *p < end {
                return Err(format!("object {i}: link fields overlap or are out of order at {p}"));
            }
            end = p + *w as u32;
            if end as usize > o.bytes.len() {
                return Err(format!("object {i}: link field {p}+{w} outside its {} bytes", o.bytes.len()));
            }
            if *t >= i {
                return Err(format!("object {i}: link to object {t} which was not allocated earlier (missing, or a cycle)"));
            }
        }
        if !keys.insert((o.bytes.clone(), o.links.clone())) {
            return Err(format!("object {i}: a second object with the same bytes and offset records (the store is a map keyed by content)"));
        }
    }
    // reachable from the root
    let mut seen = vec![false; st.objs.len()];
    let mut stack = vec![st.root];
    while let Some(i) = stack.pop() {
        if i >= seen.len() || seen[i] {
            continue;
        }
        seen[i] = true;
        stack.extend(st.objs[i].links.iter().map(|l| l.2));
    }
    if let Some(i) = seen.iter().position(|x| !x) {
        return Err(format!("object {i} is not reachable from the root"));
    }
    Ok(())
}

/// number of distinct subtables of the value as a reader sees them (a table = its `Tree` plus the adjustments and
/// widths of its slots): what content deduplication must arrive at for scoped trees
fn distinct_tables(t: &VTable) -> usize {
    // canonical text of a table: hex of its plain bytes, `L<width>@<adjustment>[<child>]` at every non-null slot
    fn key(fs: &[F], acc: &mut BTreeSet<String>) -> String {
        fn go(fs: &[F], adj: u32, s: &mut String, len: &mut usize, acc: &mut BTreeSet<String>) {
            for f in fs {
                match f {
                    F::Bytes(b) => {
                        *len += b.len();
                        s.push_str(&b.iter().map(|x| format!("{x:02x}")).collect::<String>());
                    }
                    F::Null(n) => {
                        *len += n;
                        s.push_str(&"00".repeat(*n));
                    }
                    F::Link(n, _, child) => {
                        *len += (*n).min(4);
                        let k = key(child, acc);
                        s.push_str(&format!("L{}@{adj}[{k}]", len_of(*n)));
                    }
                    F::Adjust(a, body) => go(body, *a, s, len, acc),
                    F::Pad2 => {
                        if *len % 2 != 0 {
                            *len += 1;
                            s.push_str("00");
                        }
                    }
                }
            }
        }
        let mut s = String::new();
        let mut len = 0;
        go(fs, 0, &mut s, &mut len, acc);
        acc.insert(s.clone());
        s
    }
    let mut acc = BTreeSet::new();
    key(&t.fields, &mut acc);
    acc.len()
}

// ---------------------------------------------------------------------------------------------

/// One value tree through the real writer; `oracles`: the tree is scoped (see `is_scoped`), so the property's oracles apply.
pub fn check_tree(s: &mut Session, group: &'static str, t: &VTable) {
    let req = render(t);
    let scoped = is_scoped(&t.fields, false, false);
    s.count(&format!("{group}:trees"));
    if !scoped {
        s.count(&format!("{group}:unscoped (correspondence only)"));
    }
    let st = match catch(|| real_store(t)) {
        Ok(st) => st,
        Err(p) => {
            s.oracle("tw-make-graph-no-panic", false, || req.clone(), || p);
            s.case(group, format!("tw.store {req}"), "trap".into());
            return;
        }
    };
    s.count(&format!("{group}:objects={}", st.objs.len().min(12)));
    s.case(group, format!("tw.store {req}"), show_store(&st));

    if scoped {
        // (a) the store is what `TableData` / `ObjectStore` promise
        let wf = store_wf(&st);
        s.oracle("tw-store-wellformed", wf.is_ok(), || req.clone(), || wf.clone().unwrap_err());
        // (b) unfolding the store from the root is the value
        let want = tree_of(&t.fields);
        let got = unfold(&st.objs, st.root, 0);
        let ok = got.as_ref().map(|g| *g == want).unwrap_or(false);
        s.oracle(
            "tw-store-unfolds-to-value",
            ok,
            || req.clone(),
            || format!("store {} unfolds to {} but the value is {}", show_store(&st), got.clone().map(|g| show_tree(&g)).unwrap_or_else(|e| e), show_tree(&want)),
        );
        // (c) sharing is exact: as many objects as there are distinct subtables
        let n = distinct_tables(t);
        s.oracle(
            "tw-dedup-exact",
            n == st.objs.len(),
            || req.clone(),
            || format!("{} distinct subtables but {} objects: {}", n, st.objs.len(), show_store(&st)),
        );
        if n < count_tables(&t.fields) + 1 {
            s.count(&format!("{group}:trees with shared subtables"));
        }
    }

    // compile (the hook's dump = pack_objects + serialize, as dump_table does after validation)
    let mut st = st;
    let dumped = catch(|| st.graph.dump());
    let resp = match &dumped {
        Err(_) => "trap".to_string(),
        Ok(None) => "fail".to_string(),
        Ok(Some(out)) => format!("bytes {}", rle(out)),
    };
    s.case(group, format!("tw.dump {req}"), resp);
    match dumped {
        Err(p) => {
            if scoped {
                s.oracle("tw-compile-no-panic", false, || req.clone(), || p);
            }
        }
        Ok(None) => s.count(&format!("{group}:packing failed")),
        Ok(Some(out)) => {
            s.count(&format!("{group}:compiled"));
            if scoped {
                let want = tree_of(&t.fields);
                let got = read_tree(&out, 0, &t.fields);
                let ok = got.as_ref().map(|g| *g == want).unwrap_or(false);
                s.oracle(
                    "tw-compiled-reads-back-nested",
                    ok,
                    || req.clone(),
                    || format!("out={} reads as {} but the value is {}", rle(&out), got.clone().map(|g| show_tree(&g)).unwrap_or_else(|e| e), show_tree(&want)),
                );
                if out.len() < 4000 {
                    s.case(group, format!("tw.read {} {req}", rle(&out)), format!("{} same", show_tree(&want)));
                }
            }
        }
    }
}

fn count_tables(fs: &[F]) -> usize {
    fs.iter()
        .map(|f| match f {
            F::Link(_, _, c) => 1 + count_tables(c),
            F::Adjust(_, b) => count_tables(b),
            _ => 0,
        })
        .sum()
}

// ---------------------------------------------------------------------------------------------
// generators

fn b(x: &[u8]) -> F {
    F::Bytes(x.to_vec())
}
fn l(n: usize, child: Vec<F>) -> F {
    F::Link(n, Ty::Other, child)
}
fn lt(n: usize, ty: Ty, child: Vec<F>) -> F {
    F::Link(n, ty, child)
}
fn tb(fields: Vec<F>) -> VTable {
    VTable { ty: Ty::Other, fields }
}

pub fn fixed_trees() -> Vec<VTable> {
    let leaf9 = vec![b(&[9])];
    let leaf8 = vec![b(&[8])];
    let a = vec![b(&[1, 2]), l(4, leaf9.clone())];
    vec![
        // a leaf, an empty table
        tb(vec![b(&[1, 2, 3])]),
        tb(vec![]),
        tb(vec![F::Null(2), F::Null(4)]),
        // the theorem's example: two equal children are one object
        tb(vec![b(&[7]), l(2, a.clone()), l(2, a.clone()), F::Null(2)]),
        // same bytes, DIFFERENT offset records (targets differ): must not be shared
        tb(vec![l(2, vec![b(&[5]), l(2, leaf9.clone())]), l(2, vec![b(&[5]), l(2, leaf8.clone())])]),
        // same bytes, same targets, different widths / positions
        tb(vec![l(2, vec![l(2, leaf9.clone()), F::Null(2)]), l(2, vec![l(4, leaf9.clone())]), l(2, vec![F::Null(2), l(2, leaf9.clone())])]),
        // placeholder bytes vs literal ff bytes: same bytes, one has a record
        tb(vec![l(2, vec![b(&[0xff, 0xff])]), l(2, vec![l(2, leaf9.clone())])]),
        // empty children: shared; an empty child of a 24-bit offset
        tb(vec![l(2, vec![]), l(3, vec![]), l(4, vec![]), b(&[1])]),
        // equal content, different table types: the first type wins
        tb(vec![lt(2, Ty::Gsub(1), vec![b(&[0, 1, 0, 0])]), lt(2, Ty::Gpos(3), vec![b(&[0, 1, 0, 0])]), l(2, vec![b(&[0, 1, 0, 0])])]),
        tb(vec![l(2, vec![b(&[0, 1, 0, 0])]), lt(2, Ty::Gpos(3), vec![b(&[0, 1, 0, 0])])]),
        // null vs non-null of every width
        tb(vec![F::Null(2), l(2, leaf9.clone()), F::Null(3), l(3, leaf9.clone()), F::Null(4), l(4, leaf8.clone())]),
        // adjust_offsets as the name table uses it: offsets relative to the end of the fixed part
        tb(vec![b(&[0, 0, 0, 2, 0, 12]), F::Adjust(12, vec![b(&[0, 5]), l(2, vec![b(b"hello")]), b(&[0, 3]), l(2, vec![b(b"abc")])])]),
        // the same child inside and outside a block: same object, two different adjustments on the records
        tb(vec![b(&[1, 1, 1, 1]), l(2, leaf9.clone()), F::Adjust(4, vec![l(2, leaf9.clone())]), l(2, leaf9.clone())]),
        // two parents that differ only in the adjustment of their record
        tb(vec![l(2, vec![b(&[3, 3]), F::Adjust(2, vec![l(2, leaf9.clone())])]), l(2, vec![b(&[3, 3]), l(2, leaf9.clone())]), l(2, vec![b(&[3, 3]), F::Adjust(1, vec![l(2, leaf9.clone())])])]),
        // padding
        tb(vec![b(&[1]), F::Pad2, l(2, vec![b(&[1, 2, 3]), F::Pad2]), F::Pad2, b(&[5]), F::Pad2]),
        // deep chain
        tb(vec![l(2, vec![b(&[1]), l(3, vec![b(&[2]), l(4, vec![b(&[3]), l(2, vec![b(&[4]), l(2, vec![])])])])])]),
        // a shared grandchild under different parents
        tb(vec![l(2, vec![b(&[1]), l(2, leaf9.clone())]), l(2, vec![b(&[2]), l(2, leaf9.clone())]), l(4, leaf9.clone())]),
        // --- not scoped (correspondence only): the adjustment is writer-global state
        // a child written inside a block records ITS offsets with the block's adjustment
        tb(vec![b(&[0; 6]), F::Adjust(6, vec![l(2, vec![b(&[1]), l(2, leaf9.clone())])])]),
        // a nested block resets the adjustment to 0 for the rest of the outer block
        tb(vec![b(&[0; 8]), F::Adjust(8, vec![l(2, leaf9.clone()), F::Adjust(3, vec![l(2, leaf8.clone())]), l(2, leaf9.clone())])]),
        // a child that opens a block inside the parent's block: the parent's own record gets adjustment 0
        tb(vec![b(&[0; 4]), F::Adjust(4, vec![l(2, vec![b(&[1, 1]), F::Adjust(2, vec![l(2, leaf9.clone())])]), l(2, leaf8.clone())])]),
        // widths outside 2..4: `add_offset` records Offset32 and writes min(width, 4) placeholder bytes
        tb(vec![l(5, leaf9.clone()), F::Null(5), l(6, leaf8.clone()), b(&[1])]),
        tb(vec![b(&[1, 2, 3, 4, 5, 6]), l(1, leaf9.clone()), b(&[1, 2, 3])]),
        tb(vec![F::Null(0), F::Null(1), b(&[7])]),
    ]
}

pub struct Gen<'a> {
    pub rng: &'a mut Rng,
    /// previously generated subtables, re-used to force sharing
    pool: Vec<Vec<F>>,
}

impl<'a> Gen<'a> {
    pub fn new(rng: &'a mut Rng) -> Self {
        Gen { rng, pool: vec![] }
    }

    fn bytes(&mut self, big: bool) -> Vec<u8> {
        let n = if big && self.rng.chance(1, 3) {
            *self.rng.pick(&[0x7ff0usize, 0x8000, 0xfffc, 0xfffe, 0x10002])
        } else {
            *self.rng.pick(&[0usize, 1, 1, 2, 2, 3, 4, 7])
        };
        if n > 64 {
            return vec![*self.rng.pick(&[0u8, 0xca, 0xff]); n];
        }
        (0..n).map(|_| *self.rng.pick(&[0u8, 0, 1, 1, 2, 0xff])).collect()
    }

    /// scoped subtable of at most `depth` levels
    fn table(&mut self, depth: usize, big: bool, allow_adjust: bool) -> Vec<F> {
        if !self.pool.is_empty() && self.rng.chance(1, 4) {
            let i = self.rng.below(self.pool.len() as u64) as usize;
            let t = self.pool[i].clone();
            if allow_adjust || !has_adjust(&t) {
                if depth_of(&t) <= depth {
                    return t;
                }
            }
        }
        let n = self.rng.below(5) as usize;
        let mut fs = vec![];
        for _ in 0..n {
            match self.rng.below(10) {
                0..=3 => fs.push(F::Bytes(self.bytes(big))),
                4 => fs.push(F::Null(*self.rng.pick(&[2usize, 2, 3, 4]))),
                5 => fs.push(F::Pad2),
                6 if allow_adjust && depth > 0 => {
                    // a block as the name table uses it: leaf children only
                    let a = self.rng.below(9) as u32;
                    let k = 1 + self.rng.below(3) as usize;
                    let mut body = vec![];
                    for _ in 0..k {
                        if self.rng.chance(1, 3) {
                            body.push(F::Bytes(self.bytes(false)));
                        }
                        let leaf = vec![F::Bytes(self.bytes(false))];
                        body.push(F::Link(*self.rng.pick(&[2usize, 2, 4]), Ty::Other, leaf));
                    }
                    fs.push(F::Adjust(a, body));
                }
                _ if depth > 0 => {
                    let w = *self.rng.pick(&[2usize, 2, 2, 3, 4]);
                    let child = self.table(depth - 1, big, allow_adjust);
                    fs.push(F::Link(w, Ty::Other, child));
                }
                _ => fs.push(F::Bytes(self.bytes(false))),
            }
        }
        // adjustments must not exceed what precedes the child in the output: keep them within the fixed part
        let fs = clamp_adjust(fs);
        if self.pool.len() < 24 {
            self.pool.push(fs.clone());
        }
        fs
    }

    pub fn scoped_tree(&mut self, big: bool) -> VTable {
        if self.rng.chance(1, 8) {
            self.pool.clear();
        }
        let depth = 1 + self.rng.below(4) as usize;
        let mut fields = self.table(depth, big, true);
        // most values have subtables
        while count_tables(&fields) == 0 && self.rng.chance(5, 6) {
            let w = *self.rng.pick(&[2usize, 2, 3, 4]);
            let child = self.table(depth - 1, big, true);
            let at = self.rng.below(fields.len() as u64 + 1) as usize;
            fields.insert(at, F::Link(w, Ty::Other, child));
        }
        let mut t = VTable { ty: Ty::Other, fields: clamp_adjust(fields) };
        if !big && self.rng.chance(1, 4) {
            retype(&mut t.fields, self.rng);
        }
        t
    }

    /// anything goes: nested blocks, blocks around children with offsets, odd widths
    pub fn wild_tree(&mut self) -> VTable {
        fn go(g: &mut Gen, depth: usize) -> Vec<F> {
            let n = g.rng.below(5) as usize;
            let mut fs = vec![];
            for _ in 0..n {
                match g.rng.below(10) {
                    0..=2 => fs.push(F::Bytes(g.bytes(false))),
                    3 => fs.push(F::Null(*g.rng.pick(&[0usize, 1, 2, 3, 4, 5]))),
                    4 => fs.push(F::Pad2),
                    5 | 6 if depth > 0 => {
                        let a = g.rng.below(6) as u32;
                        let body = go(g, depth - 1);
                        fs.push(F::Adjust(a, body));
                    }
                    _ if depth > 0 => {
                        let w = *g.rng.pick(&[2usize, 2, 3, 4, 4, 5, 1]);
                        let child = go(g, depth - 1);
                        fs.push(F::Link(w, Ty::Other, child));
                    }
                    _ => fs.push(F::Bytes(g.bytes(false))),
                }
            }
            fs
        }
        let depth = 1 + self.rng.below(4) as usize;
        VTable { ty: Ty::Other, fields: go(self, depth) }
    }
}

fn has_adjust(fs: &[F]) -> bool {
    fs.iter().any(|f| match f {
        F::Adjust(..) => true,
        F::Link(_, _, c) => has_adjust(c),
        _ => false,
    })
}

fn depth_of(fs: &[F]) -> usize {
    fs.iter()
        .map(|f| match f {
            F::Link(_, _, c) => 1 + depth_of(c),
            F::Adjust(_, b) => depth_of(b),
            _ => 0,
        })
        .max()
        .unwrap_or(0)
}

fn flat_len(fs: &[F], start: usize) -> usize {
    let mut len = start;
    for f in fs {
        match f {
            F::Bytes(b) => len += b.len(),
            F::Null(n) => len += n,
            F::Link(n, _, _) => len += (*n).min(4),
            F::Adjust(_, b) => len = flat_len(b, len),
            F::Pad2 => len += len % 2,
        }
    }
    len
}

/// `serialize` panics when `position(child) < position(parent) + adjustment`; children are laid out after their
/// parent, so an adjustment up to the parent's length is always fine (the name table's is the length of its fixed part)
fn clamp_adjust(fs: Vec<F>) -> Vec<F> {
    let total = flat_len(&fs, 0) as u32;
    fs.into_iter()
        .map(|f| match f {
            F::Adjust(a, body) => F::Adjust(a.min(total), body),
            other => other,
        })
        .collect()
}

fn retype(fs: &mut [F], rng: &mut Rng) {
    for f in fs.iter_mut() {
        match f {
            F::Link(_, ty, c) => {
                if rng.chance(1, 3) {
                    *ty = *rng.pick(&[Ty::Gpos(1), Ty::Gpos(3), Ty::Gpos(9), Ty::Gsub(1), Ty::Gsub(4), Ty::Gsub(7)]);
                }
                retype(c, rng);
            }
            F::Adjust(_, b) => retype(b, rng),
            _ => {}
        }
    }
}

pub fn run(cfg: &Config, s: &mut Session, rng: &mut Rng) {
    for t in fixed_trees() {
        check_tree(s, "tw-fixed", &t);
    }
    let n = if cfg.thorough() { 30000 } else { 3000 };
    let mut g = Gen::new(rng);
    for _ in 0..n {
        let t = g.scoped_tree(false);
        check_tree(s, "tw-scoped", &t);
    }
    for _ in 0..n / 10 {
        let t = g.scoped_tree(true);
        check_tree(s, "tw-big", &t);
    }
    for _ in 0..n / 3 {
        let t = g.wild_tree();
        check_tree(s, "tw-wild", &t);
    }
}

// ---------------------------------------------------------------------------------------------
// real FontWrite values (used by the c04 binary)

/// rebuild a value tree from a real object store by unfolding it from the root (`None`: the store uses adjustments in
/// a way a value tree cannot express — a record with an adjustment whose target has records with a different one)
pub fn tree_from_store(objs: &[SObj], i: usize, outer_adj: u32, depth: usize) -> Option<Vec<F>> {
    if depth > 64 {
        return None;
    }
    let o = objs.get(i)?;
    let mut fs = vec![];
    let mut at = 0usize;
    let ty_of = |tok: &str| -> Ty {
        let n: u16 = tok[1..].parse().unwrap_or(0);
        match tok.as_bytes().first() {
            Some(b'p') => Ty::Gpos(n),
            Some(b's') => Ty::Gsub(n),
            _ => Ty::Other,
        }
    };
    for (p, w, t, a) in &o.links {
        let p = *p as usize;
        if p < at || p + *w as usize > o.bytes.len() {
            return None;
        }
        if p > at {
            fs.push(F::Bytes(o.bytes[at..p].to_vec()));
        }
        let child = tree_from_store(objs, *t, *a, depth + 1)?;
        let link = F::Link(*w as usize, ty_of(&objs.get(*t)?.ty), child);
        if *a == outer_adj {
            // written while the adjustment in force was the enclosing one
            fs.push(link);
        } else if outer_adj == 0 && objs.get(*t)?.links.is_empty() {
            fs.push(F::Adjust(*a, vec![link]));
        } else {
            return None;
        }
        at = p + *w as usize;
    }
    if at < o.bytes.len() {
        fs.push(F::Bytes(o.bytes[at..].to_vec()));
    }
    Some(fs)
}

#[allow(dead_code)]
pub fn type_histogram(st: &RealStore) -> BTreeMap<String, usize> {
    let mut m = BTreeMap::new();
    for o in &st.objs {
        *m.entry(o.ty.clone()).or_insert(0) += 1;
    }
    m
}
