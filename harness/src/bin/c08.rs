//! C08 — character maps built from a mapping answer exactly that mapping.
//!
//! Correspondence (vs Model/Cmap.lean through drv_c08):
//!   * `Cmap::from_mappings` + compile + parse: the five Cmap4 arrays / the Cmap12 groups (b4, b12),
//!     lookups (l4, l12, lt) and full enumerations (i4, i12) on run-structured mappings;
//!   * the read-fonts readers on arbitrary (also malformed) Cmap4 arrays / Cmap12 groups
//!     (r4.map, r4.iter, r12.map, r12.iter with and without limits);
//!   * skrifa subtable selection, symbol fallback and notdef filtering (sk.*);
//!   * Cmap14::map_variant and its iterator (r14.*).
//! Oracles (model independent): the compiled table answers exactly the input mapping through
//! read-fonts `Cmap4/Cmap12/Cmap::map_codepoint` and skrifa `Charmap::map`; enumerations equal the
//! input; conflicts are errors; the implementation's segmentation is structurally valid;
//! cmap14 answers what was encoded.
use fv_harness::common::*;
use font_types::{GlyphId, Uint24};
use read_fonts::tables::cmap as rcmap;
use read_fonts::{FontData, FontRead, FontRef};
use skrifa::charmap::{Charmap, MapVariant};
use skrifa::MetadataProvider;
use std::collections::BTreeMap;
use write_fonts::tables::cmap as wcmap;
use write_fonts::tables::cmap::PlatformId;
use write_fonts::tables::maxp::Maxp;
use write_fonts::FontBuilder;

// ------------------------------------------------------------------------------------------
// panic guard: no panic of the real code may kill the harness.  Every case function runs under
// `guarded`; it publishes the concrete table / mapping it works on with `set_cur` as soon as it is
// generated, so that an unexpected panic becomes the oracle failure `no-panic:<case kind>` with that
// input and the panic message.  Calls with a specific expectation have their own `catch`.

static CUR: std::sync::Mutex<String> = std::sync::Mutex::new(String::new());

fn set_cur(v: String) {
    *CUR.lock().unwrap_or_else(|e| e.into_inner()) = v;
}

fn guarded(s: &mut Session, kind: &str, f: impl FnOnce(&mut Session)) {
    set_cur(String::from("(input not generated yet)"));
    let r = catch(|| f(&mut *s));
    if let Err(msg) = r {
        let input = CUR.lock().unwrap_or_else(|e| e.into_inner()).clone();
        s.oracle(&format!("no-panic:{kind}"), false, || input, || format!("panicked: {msg}"));
    }
}

// ------------------------------------------------------------------------------------------
// mappings as run tokens

#[derive(Clone, Copy, Debug)]
struct Run {
    c: u32,
    g: u32,
    n: u32,
    d: i32,
}

impl Run {
    fn pairs(&self) -> Vec<(u32, u32)> {
        (0..self.n)
            .map(|k| (self.c + k, (self.g as i64 + self.d as i64 * k as i64).max(0) as u32))
            .collect()
    }
    fn tok(&self) -> String {
        format!("{},{},{},{}", self.c, self.g, self.n, self.d)
    }
}

fn toks(runs: &[Run]) -> String {
    if runs.is_empty() {
        "-".into()
    } else {
        runs.iter().map(|r| r.tok()).collect::<Vec<_>>().join(" ")
    }
}


/// expand; `None` if some code point is not a `char` (cannot be passed to the API)
fn expand(runs: &[Run]) -> Option<Vec<(char, GlyphId)>> {
    let mut out = vec![];
    for r in runs {
        for (c, g) in r.pairs() {
            out.push((char::from_u32(c)?, GlyphId::new(g)));
        }
    }
    Some(out)
}

struct Gen<'a> {
    rng: &'a mut Rng,
}

impl Gen<'_> {
    /// one ascending sequence of runs starting near `c0`; `max_g` bounds glyph ids
    fn runs(&mut self, mut c: u32, limit: u32, n_runs: usize, max_len: u32, max_g: u32) -> Vec<Run> {
        let mut out = vec![];
        let mut last_g: u32 = 0;
        for _ in 0..n_runs {
            // gap to the previous run: adjacent (0) is the interesting case for should_combine
            let gap = match self.rng.below(10) {
                0..=4 => 0,
                5 => 1,
                6 => 2,
                7 => self.rng.below(8) as u32,
                _ => self.rng.below(300) as u32,
            };
            c += gap;
            let n = match self.rng.below(10) {
                0..=2 => 1,
                3..=5 => 1 + self.rng.below(4) as u32,
                6..=8 => 1 + self.rng.below(max_len.min(12) as u64) as u32,
                _ => 1 + self.rng.below(max_len as u64) as u32,
            };
            if c >= limit {
                break;
            }
            let n = n.min(limit - c);
            // skip the surrogate block
            if c < 0xE000 && c + n > 0xD800 {
                c = 0xE000;
            }
            let kind = self.rng.below(12);
            let d: i32 = match kind {
                0..=4 => 1,
                5..=6 => -1,
                7 => 0,
                8 => 2,
                9 => -2,
                _ => 1,
            };
            // glyph start: sometimes continue the previous run's gids (+1: mergeable in format 12)
            let span = (n - 1) * d.unsigned_abs();
            let lo = if d < 0 { 1 + span } else { 1 };
            let hi = if d > 0 { max_g.saturating_sub(span) } else { max_g };
            if lo > hi {
                c += n;
                continue;
            }
            let g = match self.rng.below(6) {
                0 if last_g + 1 >= lo && last_g + 1 <= hi => last_g + 1,
                1 => lo,
                2 => hi,
                _ => lo + self.rng.below((hi - lo + 1) as u64) as u32,
            };
            out.push(Run { c, g, n, d });
            last_g = (g as i64 + d as i64 * (n as i64 - 1)) as u32;
            c += n;
        }
        out
    }
}

// ------------------------------------------------------------------------------------------
// canonical rendering of the implementation side

fn opt(g: Option<GlyphId>) -> String {
    match g {
        Some(g) => g.to_u32().to_string(),
        None => "none".into(),
    }
}

fn show_opts(v: &[Option<GlyphId>]) -> String {
    if v.is_empty() {
        "-".into()
    } else {
        v.iter().map(|g| opt(*g)).collect::<Vec<_>>().join(" ")
    }
}

fn show_pairs(v: &[(u32, GlyphId)]) -> String {
    if v.is_empty() {
        "-".into()
    } else {
        v.iter().map(|(c, g)| format!("{}:{}", c, g.to_u32())).collect::<Vec<_>>().join(" ")
    }
}

struct Arrays4 {
    e: Vec<u16>,
    s: Vec<u16>,
    d: Vec<i16>,
    r: Vec<u16>,
    g: Vec<u16>,
}

/// The parsed `glyph_id_array` runs to the end of the enclosing data (read-fonts does not bound it
/// by the subtable's `length` field), so when other subtables follow it carries their bytes too.
/// The arrays are compared up to the subtable's own `length`.
fn arrays4(t: &rcmap::Cmap4) -> Arrays4 {
    let mut a = arrays4_raw(t);
    let own = (t.length() as usize).saturating_sub(16 + 8 * a.e.len()) / 2;
    a.g.truncate(own);
    a
}

fn arrays4_raw(t: &rcmap::Cmap4) -> Arrays4 {
    Arrays4 {
        e: t.end_code().iter().map(|x| x.get()).collect(),
        s: t.start_code().iter().map(|x| x.get()).collect(),
        d: t.id_delta().iter().map(|x| x.get()).collect(),
        r: t.id_range_offsets().iter().map(|x| x.get()).collect(),
        g: t.glyph_id_array().iter().map(|x| x.get()).collect(),
    }
}

fn show_arrays4(a: &Arrays4) -> String {
    format!("{} | {} | {} | {} | {}", join(&a.e), join(&a.s), join(&a.d), join(&a.r), join(&a.g))
}

fn groups12(t: &rcmap::Cmap12) -> Vec<(u32, u32, u32)> {
    t.groups().iter().map(|g| (g.start_char_code(), g.end_char_code(), g.start_glyph_id())).collect()
}

fn show_groups(v: &[(u32, u32, u32)]) -> String {
    if v.is_empty() {
        "-".into()
    } else {
        v.iter().map(|(a, b, c)| format!("{a},{b},{c}")).collect::<Vec<_>>().join(" ")
    }
}

/// outcome of from_mappings + dump_table
enum Built {
    Conflict(String),
    Trap(String),
    Ok(Vec<u8>),
}

fn build(pairs: &[(char, GlyphId)]) -> Built {
    let r = catch(|| {
        let cmap = wcmap::Cmap::from_mappings(pairs.iter().copied());
        match cmap {
            Err(e) => Err(e.to_string()),
            Ok(c) => Ok(write_fonts::dump_table(&c)),
        }
    });
    match r {
        Err(msg) => Built::Trap(msg),
        Ok(Err(conflict)) => {
            // "Cannot map 'x' (U+0041) to two different glyph ids: GID_1 and GID_2"
            let cp = conflict.split("(U+").nth(1).and_then(|s| s.split(')').next()).and_then(|h| u32::from_str_radix(h, 16).ok());
            let gids: Vec<u32> = conflict.split("GID_").skip(1).filter_map(|s| {
                let d: String = s.chars().take_while(|c| c.is_ascii_digit()).collect();
                d.parse().ok()
            }).collect();
            match (cp, gids.as_slice()) {
                (Some(cp), [a, b]) => Built::Conflict(format!("conflict {cp} {a} {b}")),
                _ => Built::Conflict(format!("conflict unparsed {conflict}")),
            }
        }
        Ok(Ok(Err(e))) => Built::Trap(format!("dump error {e}")),
        Ok(Ok(Ok(bytes))) => Built::Ok(bytes),
    }
}

fn find4<'a>(cmap: &rcmap::Cmap<'a>, idx: usize) -> Option<rcmap::Cmap4<'a>> {
    match cmap.encoding_records().get(idx)?.subtable(cmap.offset_data()).ok()? {
        rcmap::CmapSubtable::Format4(t) => Some(t),
        _ => None,
    }
}

fn first_of<'a>(cmap: &rcmap::Cmap<'a>, want12: bool) -> Option<rcmap::CmapSubtable<'a>> {
    for rec in cmap.encoding_records() {
        if let Ok(st) = rec.subtable(cmap.offset_data()) {
            match (&st, want12) {
                (rcmap::CmapSubtable::Format4(_), false) => return Some(st),
                (rcmap::CmapSubtable::Format12(_), true) => return Some(st),
                _ => {}
            }
        }
    }
    None
}

fn font_with(cmap_bytes: &[u8], num_glyphs: u16) -> Vec<u8> {
    let mut b = FontBuilder::new();
    b.add_raw(font_types::Tag::new(b"cmap"), cmap_bytes.to_vec());
    b.add_table(&Maxp::new(num_glyphs)).unwrap();
    b.build()
}

// ------------------------------------------------------------------------------------------
// builder cases

struct Probe {
    cps: Vec<u32>,
}

fn probes(runs: &[Run], rng: &mut Rng, all_bmp: bool) -> Probe {
    let mut cps: Vec<u32> = vec![0, 1, 0xD7FF, 0xE000, 0xFFFD, 0xFFFE, 0xFFFF, 0x10000, 0x10001, 0x10FFFF];
    if all_bmp {
        cps.extend(0..=0xFFFFu32);
    }
    for r in runs {
        let end = r.c + r.n - 1;
        for x in [r.c.wrapping_sub(1), r.c, r.c + 1, end.wrapping_sub(1), end, end + 1] {
            if x <= 0x110000 {
                cps.push(x);
            }
        }
        if r.n > 2 {
            cps.push(r.c + rng.below(r.n as u64) as u32);
        }
    }
    for _ in 0..6 {
        cps.push(rng.below(0x11000) as u32);
    }
    cps.sort();
    cps.dedup();
    Probe { cps }
}

/// compress a sorted list of code points into `a..b` tokens
fn cps_tok(cps: &[u32]) -> String {
    let mut parts: Vec<String> = vec![];
    let mut i = 0;
    while i < cps.len() {
        let mut j = i;
        while j + 1 < cps.len() && cps[j + 1] == cps[j] + 1 {
            j += 1;
        }
        if j > i {
            parts.push(format!("{}..{}", cps[i], cps[j]));
        } else {
            parts.push(cps[i].to_string());
        }
        i = j + 1;
    }
    parts.join(",")
}

/// structural validity of the implementation's own segmentation, read off the compiled arrays
fn check_segmentation(s: &mut Session, a: &Arrays4, want: &BTreeMap<u32, u32>, input: &str) {
    let n = a.e.len();
    let same_len = a.s.len() == n && a.d.len() == n && a.r.len() == n;
    s.oracle("segmentation:array-lengths", same_len, || input.to_string(), || format!("{} {} {} {}", n, a.s.len(), a.d.len(), a.r.len()));
    if !same_len || n == 0 {
        s.oracle("segmentation:nonempty", false, || input.to_string(), || "no segments".into());
        return;
    }
    let last_ok = a.e[n - 1] == 0xFFFF && a.s[n - 1] == 0xFFFF && a.r[n - 1] == 0;
    s.oracle("segmentation:final-sentinel", last_ok, || input.to_string(), || format!("{:?}", (a.s[n - 1], a.e[n - 1], a.d[n - 1], a.r[n - 1])));
    let mut ok_order = true;
    let mut covered: u64 = 0;
    let mut all_mapped = true;
    for i in 0..n - 1 {
        if a.s[i] > a.e[i] || (i + 1 < n && a.e[i] >= a.s[i + 1]) {
            ok_order = false;
        }
        for c in a.s[i] as u32..=a.e[i] as u32 {
            covered += 1;
            if !want.contains_key(&c) {
                all_mapped = false;
            }
        }
        if a.r[i] == 0 {
            s.count("seg:delta");
        } else {
            s.count("seg:range-offset");
        }
    }
    let bmp_count = want.range(..0xFFFFu32).count() as u64;
    s.oracle("segmentation:ascending-disjoint", ok_order, || input.to_string(), || show_arrays4(a));
    s.oracle("segmentation:segments-are-char-contiguous-runs-of-the-mapping", all_mapped, || input.to_string(), || show_arrays4(a));
    s.oracle("segmentation:covers-every-bmp-char-once", !ok_order || covered == bmp_count, || input.to_string(), || format!("covered {covered} of {bmp_count}"));
}

fn builder_case(s: &mut Session, rng: &mut Rng, runs: &[Run], all_bmp: bool, num_glyphs: u16) {
    let Some(pairs) = expand(runs) else {
        s.count("skipped:not-a-char");
        return;
    };
    let mt = toks(runs);
    set_cur(format!("mapping {mt} num_glyphs={num_glyphs}"));
    // the mapping as a function (None on conflict)
    let mut want: BTreeMap<u32, u32> = BTreeMap::new();
    let mut conflict = false;
    for (c, g) in &pairs {
        if let Some(prev) = want.insert(*c as u32, g.to_u32()) {
            if prev != g.to_u32() {
                conflict = true;
            }
        }
    }
    let in_domain = !conflict
        && !pairs.is_empty()
        && want.iter().all(|(c, g)| *g >= 1 && *g <= 0xFFFF && *c != 0xFFFF);
    let bmp_count = want.range(..=0xFFFFu32).count();
    let has_supp = want.range(0x10000u32..).next().is_some();
    s.count(if conflict { "mapping:conflict" } else if in_domain { "mapping:in-domain" } else { "mapping:out-of-domain" });
    s.count(&format!("mapping:size~{}", match want.len() { 0 => "0", 1..=4 => "1-4", 5..=32 => "5-32", 33..=512 => "33-512", 513..=8192 => "513-8192", _ => ">8192" }));
    s.count(match (bmp_count > 0, has_supp) { (true, true) => "mapping:bmp+supp", (true, false) => "mapping:bmp-only", (false, true) => "mapping:supp-only", _ => "mapping:empty" });

    let built = build(&pairs);
    let (tag, bytes) = match &built {
        Built::Conflict(c) => (c.clone(), None),
        Built::Trap(_) => ("trap".to_string(), None),
        Built::Ok(b) => (String::new(), Some(b.clone())),
    };
    s.oracle("conflict_is_error", conflict == matches!(built, Built::Conflict(_)) || matches!(built, Built::Trap(_)) && !conflict,
        || mt.clone(), || format!("conflict={conflict} result={tag}"));
    if in_domain && bmp_count <= 6500 {
        s.oracle("build-succeeds", bytes.is_some(), || format!("from_mappings {mt}"),
            || match &built { Built::Trap(m) => format!("panic: {m}"), _ => tag.clone() });
    }
    let p = probes(runs, rng, all_bmp);
    let ct = cps_tok(&p.cps);
    let Some(bytes) = bytes else {
        s.count(&format!("build:{}", if conflict { "conflict" } else { "trap" }));
        for cmd in ["b4", "b12", "i4"] {
            s.case("build-fail", format!("{cmd} {mt}"), tag.clone());
        }
        s.case("build-fail", format!("lt {ct} | {mt}"), tag.clone());
        s.case("build-fail", format!("lc {ct} | {mt}"), tag.clone());
        s.case("build-fail", format!("ic {num_glyphs} | {mt}"), tag.clone());
        return;
    };
    s.count("build:ok");
    let cmap = match rcmap::Cmap::read(FontData::new(&bytes)) {
        Ok(c) => c,
        Err(e) => {
            s.oracle("compiled-table-parses", false, || mt.clone(), || e.to_string());
            return;
        }
    };
    // record layout
    let recs: Vec<(u16, u16, u16)> = cmap.encoding_records().iter().map(|r| {
        let f = r.subtable(cmap.offset_data()).map(|st| st.format()).unwrap_or(999);
        (r.platform_id() as u16, r.encoding_id(), f)
    }).collect();
    let want_recs: Vec<(u16, u16, u16)> = {
        let mut v = vec![];
        if bmp_count > 0 { v.push((0, 3, 4)); }
        if has_supp { v.push((0, 4, 12)); }
        if bmp_count > 0 { v.push((3, 1, 4)); }
        if has_supp { v.push((3, 10, 12)); }
        v
    };
    s.oracle("encoding-records", recs == want_recs, || mt.clone(), || format!("{recs:?} want {want_recs:?}"));

    let f4 = first_of(&cmap, false).and_then(|st| if let rcmap::CmapSubtable::Format4(t) = st { Some(t) } else { None });
    let f12 = first_of(&cmap, true).and_then(|st| if let rcmap::CmapSubtable::Format12(t) = st { Some(t) } else { None });

    // ---- correspondence: compiled arrays
    match &f4 {
        Some(t) => {
            let a = arrays4(t);
            s.case("b4", format!("b4 {mt}"), show_arrays4(&a));
            if in_domain {
                check_segmentation(s, &a, &want, &mt);
            }
            s.oracle("seg_count_x2", t.seg_count_x2() as usize == 2 * a.e.len(), || mt.clone(), || t.seg_count_x2().to_string());
            // Windows copy identical
            if let Some(w) = find4(&cmap, if has_supp { 2 } else { 1 }) {
                s.oracle("windows-bmp-subtable-same", show_arrays4(&arrays4(&w)) == show_arrays4(&a), || mt.clone(), || String::new());
            }
        }
        None => s.case("b4", format!("b4 {mt}"), "none".into()),
    }
    match &f12 {
        Some(t) => s.case("b12", format!("b12 {mt}"), show_groups(&groups12(t))),
        None => s.case("b12", format!("b12 {mt}"), "none".into()),
    }
    // ---- lookups
    let font_bytes = font_with(&bytes, num_glyphs);
    let font = FontRef::new(&font_bytes).unwrap();
    let charmap: Charmap = font.charmap();
    let lt: Vec<Option<GlyphId>> = p.cps.iter().map(|c| cmap.map_codepoint(*c)).collect();
    s.case("lt", format!("lt {ct} | {mt}"), show_opts(&lt));
    // skrifa Charmap on the built table: correspondence for selection + filtering + limits
    let lc: Vec<Option<GlyphId>> = p.cps.iter().map(|c| charmap.map(*c)).collect();
    s.case("lc", format!("lc {ct} | {mt}"), show_opts(&lc));
    let ic: Vec<(u32, GlyphId)> = charmap.mappings().collect();
    s.case("ic", format!("ic {num_glyphs} | {mt}"), show_pairs(&ic));
    if let Some(t) = &f4 {
        let l4: Vec<Option<GlyphId>> = p.cps.iter().map(|c| t.map_codepoint(*c)).collect();
        s.case("l4", format!("l4 {ct} | {mt}"), show_opts(&l4));
        if in_domain {
            for (c, got) in p.cps.iter().zip(&l4) {
                let w = if *c == 0xFFFF { Some(0) } else if *c < 0xFFFF { want.get(c).copied() } else { None };
                s.oracle("fmt4_lookup", got.map(|g| g.to_u32()) == w, || format!("cp {c} in {mt}"), || format!("got {got:?} want {w:?}"));
            }
        }
    } else {
        s.case("l4", format!("l4 {ct} | {mt}"), "none".into());
    }
    if let Some(t) = &f12 {
        let l12: Vec<Option<GlyphId>> = p.cps.iter().map(|c| t.map_codepoint(*c)).collect();
        s.case("l12", format!("l12 {ct} | {mt}"), show_opts(&l12));
        if in_domain {
            for (c, got) in p.cps.iter().zip(&l12) {
                let w = want.get(c).copied();
                s.oracle("fmt12_lookup", got.map(|g| g.to_u32()) == w, || format!("cp {c} in {mt}"), || format!("got {got:?} want {w:?}"));
            }
        }
    } else {
        s.case("l12", format!("l12 {ct} | {mt}"), "none".into());
    }
    if in_domain {
        for (c, got) in p.cps.iter().zip(&lt) {
            let w = want.get(c).copied();
            let ok = got.map(|g| g.to_u32()) == w || (*c == 0xFFFF && bmp_count > 0 && got.map(|g| g.to_u32()) == Some(0));
            s.oracle("cmap_table_lookup", ok, || format!("cp {c} in {mt}"), || format!("got {got:?} want {w:?}"));
            let sk = charmap.map(*c);
            s.oracle("charmap_map", sk.map(|g| g.to_u32()) == w, || format!("cp {c} in {mt}"), || format!("got {sk:?} want {w:?}"));
        }
        s.oracle("charmap-has-map", charmap.has_map() && !charmap.is_symbol(), || mt.clone(), || String::new());
    }
    // ---- enumerations
    if let Some(t) = &f4 {
        let items: Vec<(u32, GlyphId)> = t.iter().collect();
        s.case("i4", format!("i4 {mt}"), show_pairs(&items));
        if in_domain {
            let mut w: Vec<(u32, u32)> = want.range(..0xFFFFu32).map(|(c, g)| (*c, *g)).collect();
            w.push((0xFFFF, 0));
            let got: Vec<(u32, u32)> = items.iter().map(|(c, g)| (*c, g.to_u32())).collect();
            s.oracle("fmt4_iter", got == w, || mt.clone(), || format!("{} items, want {}", got.len(), w.len()));
        }
    } else {
        s.case("i4", format!("i4 {mt}"), "none".into());
    }
    if let Some(t) = &f12 {
        let items: Vec<(u32, GlyphId)> = t.iter().collect();
        s.case("i12", format!("i12 - | {mt}"), show_pairs(&items));
        let lim = rcmap::Cmap12IterLimits { max_char: 0x10FFFF, glyph_count: num_glyphs as u32 };
        let items_l: Vec<(u32, GlyphId)> = t.iter_with_limits(lim).collect();
        s.case("i12-limits", format!("i12 {} {} | {mt}", 0x10FFFF, num_glyphs), show_pairs(&items_l));
        if in_domain {
            let w: Vec<(u32, u32)> = want.iter().map(|(c, g)| (*c, *g)).collect();
            let got: Vec<(u32, u32)> = items.iter().map(|(c, g)| (*c, g.to_u32())).collect();
            s.oracle("fmt12_iter", got == w, || mt.clone(), || format!("{} items, want {}", got.len(), w.len()));
        }
    } else {
        s.case("i12", format!("i12 - | {mt}"), "none".into());
    }
    if in_domain && want.values().all(|g| *g < num_glyphs as u32) {
        let got: Vec<(u32, u32)> = charmap.mappings().map(|(c, g)| (c, g.to_u32())).collect();
        let w: Vec<(u32, u32)> = if has_supp { want.iter().map(|(c, g)| (*c, *g)).collect() } else { want.range(..0xFFFFu32).map(|(c, g)| (*c, *g)).collect() };
        s.oracle("charmap_mappings", got == w, || format!("{mt} num_glyphs={num_glyphs}"), || format!("{} items, want {}", got.len(), w.len()));
    }
}

// ------------------------------------------------------------------------------------------
// reader on arbitrary arrays

fn compile_one(rec: (u16, u16), st: wcmap::CmapSubtable) -> Option<Vec<u8>> {
    let cmap = wcmap::Cmap::new(vec![wcmap::EncodingRecord::new(PlatformId::new(rec.0), rec.1, st)]);
    catch(|| write_fonts::dump_table(&cmap)).ok()?.ok()
}

fn raw4_case(s: &mut Session, rng: &mut Rng, thorough: bool) {
    let n = match rng.below(8) { 0 => 0, 1 => 1, _ => 1 + rng.below(6) as usize };
    let small: [u16; 14] = [0, 1, 2, 5, 10, 11, 12, 20, 30, 31, 40, 100, 0xFFFE, 0xFFFF];
    let mut e: Vec<u16> = vec![];
    let mut st: Vec<u16> = vec![];
    let mut d: Vec<i16> = vec![];
    let mut r: Vec<u16> = vec![];
    let mode = rng.below(4); // 0: sorted plausible, 1: overlapping, 2: random small, 3: with sentinel
    let mut cur: u32 = rng.below(20) as u32;
    for i in 0..n {
        let (a, b) = match mode {
            0 | 3 => {
                let a = cur + rng.below(6) as u32;
                let b = a + rng.below(8) as u32;
                cur = b + 1;
                (a.min(0xFFFF) as u16, b.min(0xFFFF) as u16)
            }
            1 => {
                let a = cur.saturating_sub(rng.below(10) as u32) + rng.below(6) as u32;
                let b = (a + rng.below(12) as u32).saturating_sub(rng.below(4) as u32);
                cur = b + 1;
                (a.min(0xFFFF) as u16, b.min(0xFFFF) as u16)
            }
            _ => (*rng.pick(&small), *rng.pick(&small)),
        };
        st.push(a);
        e.push(b);
        let use_off = rng.chance(1, 2);
        d.push(if use_off && rng.chance(2, 3) { 0 } else { *rng.pick(&[0i16, 1, -1, 100, -100, 32767, -32768, -5, 7]) });
        r.push(if !use_off { 0 } else {
            match rng.below(5) {
                0 => 2 * (n - i) as u16,                       // first glyph slot
                1 => 2 * (n - i) as u16 + 2 * rng.below(6) as u16,
                2 => 2 * rng.below(12) as u16,                 // may point before the array (saturating_sub)
                3 => 1 + 2 * rng.below(12) as u16,             // odd
                _ => *rng.pick(&[2u16, 4, 100, 0xFFFE, 0xFFFF]),
            }
        });
    }
    if mode == 3 {
        e.push(0xFFFF); st.push(0xFFFF); d.push(1); r.push(0);
    }
    let ng = rng.below(16) as usize;
    let g: Vec<u16> = (0..ng).map(|_| match rng.below(5) { 0 => 0, 1 => 0xFFFF, _ => 1 + rng.below(300) as u16 }).collect();
    let sub = wcmap::CmapSubtable::format_4(0, e, st, d, r, g);
    let Some(bytes) = compile_one((0, 3), sub) else { s.count("raw4:compile-failed"); return; };
    let Ok(cmap) = rcmap::Cmap::read(FontData::new(&bytes)) else { s.count("raw4:unparsed"); return; };
    let Some(t) = find4(&cmap, 0) else { s.count("raw4:unparsed"); return; };
    let a = arrays4(&t);
    let at = show_arrays4(&a);
    set_cur(format!("Cmap4 {at}"));
    let mut cps: Vec<u32> = vec![0, 0xFFFE, 0xFFFF, 0x10000];
    for i in 0..a.s.len() {
        for x in [a.s[i] as u32, a.e[i] as u32] {
            cps.extend([x.wrapping_sub(1), x, x + 1].iter().filter(|v| **v <= 0x10000));
        }
    }
    if thorough {
        cps.extend(0..200u32);
    }
    cps.sort();
    cps.dedup();
    let got: Vec<Option<GlyphId>> = cps.iter().map(|c| {
        match catch(|| t.map_codepoint(*c)) { Ok(v) => v, Err(_) => Some(GlyphId::new(0xDEAD_BEEF)) }
    }).collect();
    s.oracle("reader-does-not-panic:map4", got.iter().all(|g| *g != Some(GlyphId::new(0xDEAD_BEEF))), || format!("Cmap4 {at}"), || String::new());
    s.case("r4.map", format!("r4.map {} | {at}", cps_tok(&cps)), show_opts(&got));
    let span: u64 = a.s.iter().zip(&a.e).map(|(x, y)| (*y as u64 + 1).saturating_sub(*x as u64)).sum();
    if span <= 3000 || thorough {
        let items = catch(|| t.iter().take(70000).collect::<Vec<_>>());
        match items {
            Ok(items) => {
                s.oracle("cmap4-iter-yields-at-most-65536", items.len() <= 65536, || format!("Cmap4 {at}"), || items.len().to_string());
                let asc = items.windows(2).all(|w| w[0].0 < w[1].0);
                s.oracle("cmap4-iter-strictly-ascending", asc, || format!("Cmap4 {at}"), || String::new());
                // iterator agrees with map_codepoint on non-overlapping tables
                s.case("r4.iter", format!("r4.iter {at}"), show_pairs(&items));
                // skrifa view: the same, notdef removed
                let font_bytes = font_with(&bytes, 400);
                let font = FontRef::new(&font_bytes).unwrap();
                let cm = font.charmap();
                let sk: Vec<(u32, GlyphId)> = cm.mappings().collect();
                s.case("sk.iter4", format!("sk.iter4 {at}"), show_pairs(&sk));
                let skm: Vec<Option<GlyphId>> = cps.iter().map(|c| cm.map(*c)).collect();
                s.case("sk.map4", format!("sk.map4 {} | 0 | {at}", cps_tok(&cps)), show_opts(&skm));
                s.oracle("charmap-never-returns-notdef", skm.iter().all(|g| *g != Some(GlyphId::NOTDEF)) && sk.iter().all(|x| x.1 != GlyphId::NOTDEF), || format!("Cmap4 {at}"), || String::new());
            }
            Err(m) => s.oracle("reader-does-not-panic:iter4", false, || format!("Cmap4 {at}"), || m),
        }
    } else {
        s.count("raw4:iter-skipped-large");
    }
}

fn raw12_case(s: &mut Session, rng: &mut Rng) {
    let n = match rng.below(8) { 0 => 0, _ => 1 + rng.below(6) as usize };
    let mode = rng.below(4);
    let mut groups: Vec<(u32, u32, u32)> = vec![];
    let mut cur: u32 = *rng.pick(&[0u32, 10, 0xFFF0, 0x10FFF0, 0xFFFF_FF00]);
    for _ in 0..n {
        let (a, b) = match mode {
            0 => { let a = cur.saturating_add(rng.below(6) as u32); let b = a.saturating_add(rng.below(40) as u32); cur = b.saturating_add(1); (a, b) }
            1 => { let a = cur.saturating_sub(rng.below(20) as u32); let b = a.saturating_add(rng.below(40) as u32).saturating_sub(rng.below(10) as u32); cur = b.saturating_add(1); (a, b) }
            2 => (*rng.pick(&[0u32, 5, 0x10FFFF, 0x110000, 0xFFFF_FFFE, 0xFFFF_FFFF]), *rng.pick(&[0u32, 9, 0x10FFFF, 0x110005, 0xFFFF_FFFF])),
            _ => { let a = cur + rng.below(3) as u32; let b = a + rng.below(5) as u32; cur = b + 1; (a, b) }
        };
        let g = match rng.below(6) { 0 => 0, 1 => 0xFFFF, 2 => 0xFFFF_FFF0, 3 => 395, _ => rng.below(500) as u32 };
        groups.push((a, b, g));
    }
    let sub = wcmap::CmapSubtable::format_12(0, groups.iter().map(|(a, b, g)| wcmap::SequentialMapGroup::new(*a, *b, *g)).collect());
    let Some(bytes) = compile_one((0, 4), sub) else { s.count("raw12:compile-failed"); return; };
    let Ok(cmap) = rcmap::Cmap::read(FontData::new(&bytes)) else { return; };
    let Some(rcmap::CmapSubtable::Format12(t)) = first_of(&cmap, true) else { return; };
    let gs = groups12(&t);
    let gt = show_groups(&gs);
    set_cur(format!("Cmap12 {gt}"));
    let mut cps: Vec<u32> = vec![0, 0xFFFF, 0x10000, 0x10FFFF, 0xFFFF_FFFF];
    for (a, b, _) in &gs {
        for x in [*a, *b] {
            cps.extend([x.wrapping_sub(1), x, x.wrapping_add(1)]);
        }
    }
    cps.sort();
    cps.dedup();
    let got: Vec<Option<GlyphId>> = cps.iter().map(|c| t.map_codepoint(*c)).collect();
    s.case("r12.map", format!("r12.map {} | {gt}", cps_tok(&cps)), show_opts(&got));
    let take = 1500usize;
    let items = catch(|| t.iter().take(take).collect::<Vec<_>>());
    match items {
        Ok(items) => s.case("r12.iter", format!("r12.iter {take} | - | {gt}"), show_pairs(&items)),
        Err(m) => s.oracle("reader-does-not-panic:iter12", false, || format!("Cmap12 {gt}"), || m),
    }
    let lim = rcmap::Cmap12IterLimits { max_char: *rng.pick(&[0x10FFFFu32, 0xFFFF, 30, 0xFFFF_FFFF]), glyph_count: *rng.pick(&[400u32, 0xFFFF, 1, 0]) };
    let items = catch(|| t.iter_with_limits(lim).take(take).collect::<Vec<_>>());
    match items {
        Ok(items) => {
            s.case("r12.iter-limits", format!("r12.iter {take} | {} {} | {gt}", lim.max_char, lim.glyph_count), show_pairs(&items));
            // max_char is the last valid character (inclusive), glyph_count an exclusive bound
            let within = items.iter().all(|(c, g)| *c <= lim.max_char && g.to_u32() < lim.glyph_count);
            s.oracle("cmap12-limited-iter-respects-limits", within, || format!("Cmap12 {gt} limits {lim:?}"), || String::new());
            // ascending output is only promised for ascending, disjoint groups (unlike Cmap4Iter,
            // Cmap12Iter lets `range.end` slide backwards on overlapping groups; not part of C08)
            let well_formed = gs.iter().all(|(a, b, _)| a <= b) && gs.windows(2).all(|w| w[0].1 < w[1].0);
            let asc = items.windows(2).all(|w| w[0].0 < w[1].0);
            if well_formed {
                s.count("raw12:well-formed");
                s.oracle("cmap12-iter-strictly-ascending", asc, || format!("Cmap12 {gt} limits {lim:?}"), || String::new());
            } else if !asc {
                s.count("raw12:malformed-groups-iterate-non-ascending");
            }
        }
        Err(m) => s.oracle("reader-does-not-panic:iter12", false, || format!("Cmap12 {gt}"), || m),
    }
    // skrifa over a font with maxp
    let ng = *rng.pick(&[400u16, 1, 0xFFFF]);
    let font_bytes = font_with(&bytes, ng);
    let font = FontRef::new(&font_bytes).unwrap();
    let cm = font.charmap();
    let sk = catch(|| cm.mappings().take(take).collect::<Vec<_>>());
    if let Ok(sk) = sk {
        // model: filter after take would differ; ask for the filtered list only when short
        if sk.len() < take {
            s.case("sk.iter12", format!("sk.iter12 {} {} | {gt}", 0x10FFFF, ng), show_pairs(&sk));
        }
    }
    let skm: Vec<Option<GlyphId>> = cps.iter().map(|c| cm.map(*c)).collect();
    s.case("sk.map12", format!("sk.map12 {} | 0 | {gt}", cps_tok(&cps)), show_opts(&skm));
}

// ------------------------------------------------------------------------------------------
// skrifa selection

fn probe_subtable(kind: u8, idx: usize) -> wcmap::CmapSubtable {
    let g = idx as u16 + 1;
    match kind {
        0 => wcmap::CmapSubtable::format_4(0, vec![0x41, 0xFFFF], vec![0x41, 0xFFFF], vec![(g as i32 - 0x41) as i16, 1], vec![0, 0], vec![]),
        1 => wcmap::CmapSubtable::format_12(0, vec![wcmap::SequentialMapGroup::new(0x41, 0x41, g as u32)]),
        2 => {
            let nd = wcmap::NonDefaultUvs::new(1, vec![wcmap::UvsMapping::new(Uint24::new(0x41), g)]);
            let len = 10 + 11 + 4 + 5;
            wcmap::CmapSubtable::format_14(len, 1, vec![wcmap::VariationSelector::new(Uint24::new(0xFE00), None, Some(nd))])
        }
        _ => wcmap::CmapSubtable::format_6(10 + 2, 0, 0x41, 1, vec![g]),
    }
}

fn selection_case(s: &mut Session, rng: &mut Rng) {
    let n = rng.below(6) as usize;
    let mut recs: Vec<(u16, u16, u8)> = vec![];
    for _ in 0..n {
        let p = *rng.pick(&[0u16, 0, 1, 2, 3, 3, 3, 4]);
        let e = *rng.pick(&[0u16, 1, 3, 4, 5, 6, 10]);
        let k = *rng.pick(&[0u8, 0, 1, 1, 2, 3]);
        recs.push((p, e, k));
    }
    set_cur(format!("encoding records (platform, encoding, kind) {recs:?}"));
    let records: Vec<wcmap::EncodingRecord> = recs.iter().enumerate()
        .map(|(i, (p, e, k))| wcmap::EncodingRecord::new(PlatformId::new(*p), *e, probe_subtable(*k, i))).collect();
    let cmap = wcmap::Cmap::new(records);
    let Ok(Ok(bytes)) = catch(|| write_fonts::dump_table(&cmap)) else { s.count("sel:compile-failed"); return; };
    let font_bytes = font_with(&bytes, 100);
    let font = FontRef::new(&font_bytes).unwrap();
    let cm = font.charmap();
    let chosen = cm.map(0x41u32).map(|g| (g.to_u32() - 1).to_string()).unwrap_or("none".into());
    let vchosen = match cm.map_variant(0x41u32, 0xFE00u32) {
        Some(MapVariant::Variant(g)) => (g.to_u32() - 1).to_string(),
        _ => "none".into(),
    };
    s.oracle("selection:has_map-consistent", cm.has_map() == (chosen != "none") && cm.has_variant_map() == (vchosen != "none"), || format!("{recs:?}"), || String::new());
    // documented priority, independently of the model: symbol > full repertoire > BMP, supported formats only
    let kind_of = |r: &(u16, u16, u8)| -> u8 {
        if r.2 > 1 { return 0; }
        match (r.0, r.1) { (0, 5) => 0, (3, 0) => 3, (3, 10) | (0, 4) => 2, (2, _) | (0, _) | (3, 1) => 1, _ => 0 }
    };
    let best = recs.iter().map(kind_of).max().unwrap_or(0);
    let sel_ok = match chosen.parse::<usize>() {
        Err(_) => best == 0,
        Ok(i) => i < recs.len() && kind_of(&recs[i]) == best && best > 0 && cm.is_symbol() == (best == 3),
    };
    s.oracle("selection:best-kind", sel_ok, || format!("{recs:?}"), || format!("chosen {chosen} best kind {best} symbol {}", cm.is_symbol()));
    let kinds = ["f4", "f12", "f14", "x"];
    let rt = if recs.is_empty() { "-".to_string() } else { recs.iter().map(|(p, e, k)| format!("{p},{e},{}", kinds[*k as usize])).collect::<Vec<_>>().join(" ") };
    s.case("sk.sel", format!("sk.sel {rt}"), format!("{chosen} {} {vchosen}", cm.is_symbol()));
    // the MappingIndex route must agree with the direct one
    let ix = skrifa::charmap::MappingIndex::new(&font);
    let cm2 = ix.charmap(&font);
    s.oracle("selection:mapping-index-agrees", cm2.map(0x41u32) == cm.map(0x41u32) && cm2.is_symbol() == cm.is_symbol() && cm2.has_variant_map() == cm.has_variant_map(), || format!("{recs:?}"), || String::new());
    if cm.is_symbol() { s.count("sel:symbol"); } else if chosen != "none" { s.count("sel:unicode"); } else { s.count("sel:none"); }
}

fn symbol_case(s: &mut Session, rng: &mut Rng) {
    // a symbol font: chars at U+F000 + x
    let base = 0xF000u32;
    let lo = rng.below(0x60) as u32;
    let n = 1 + rng.below(0x120) as u32;
    let g0 = 1 + rng.below(50) as u16;
    let s0 = (base + lo) as u16;
    let e0 = (base + lo + n - 1).min(0xFFFE) as u16;
    let mut e = vec![e0, 0xFFFF];
    let mut st = vec![s0, 0xFFFF];
    let mut d = vec![(g0 as i32 - s0 as i32) as i16, 1];
    let mut r = vec![0u16, 0];
    if rng.chance(1, 2) {
        // an ASCII segment too: direct hits win over the fallback
        e.insert(0, 0x45); st.insert(0, 0x41); d.insert(0, 300 - 0x41); r.insert(0, 0);
    }
    set_cur(format!("symbol Cmap4 end {e:?} start {st:?} delta {d:?}"));
    let sub = wcmap::CmapSubtable::format_4(0, e, st, d, r, vec![]);
    let Some(bytes) = compile_one((3, 0), sub) else { return; };
    let font_bytes = font_with(&bytes, 1000);
    let font = FontRef::new(&font_bytes).unwrap();
    let cm = font.charmap();
    s.oracle("symbol-selected", cm.is_symbol(), || "symbol font".into(), || String::new());
    let cmap = rcmap::Cmap::read(FontData::new(&bytes)).unwrap();
    let t = find4(&cmap, 0).unwrap();
    let at = show_arrays4(&arrays4(&t));
    let mut cps: Vec<u32> = vec![0, 0x40, 0x41, 0x45, 0x46, 0xFF, 0x100, 0xF000, 0xF0FF, 0xF100];
    cps.extend([lo, lo.wrapping_sub(1), lo + n - 1, lo + n, base + lo, base + lo + n].iter().filter(|c| **c < 0x11000));
    cps.sort();
    cps.dedup();
    let got: Vec<Option<GlyphId>> = cps.iter().map(|c| cm.map(*c)).collect();
    s.case("sk.map4-symbol", format!("sk.map4 {} | 1 | {at}", cps_tok(&cps)), show_opts(&got));
}

// ------------------------------------------------------------------------------------------
// cmap14

fn cmap14_case(s: &mut Session, rng: &mut Rng) {
    // malformed = arrays not sorted as the format requires: correspondence only (the model
    // transcribes core's binary_search_by, so it predicts the answers on unsorted arrays too)
    let malformed = rng.chance(1, 4);
    let nsel = rng.below(4) as usize + if malformed { 1 } else { 0 };
    let mut sel_val: u32 = *rng.pick(&[0xFE00u32, 0xFE0E, 0xE0100, 0x180B]);
    let mut recs = vec![];
    let mut toks: Vec<String> = vec![];
    // what Cmap14Iter must yield for each record (defaults expanded in array order, then non-defaults)
    let mut exp_recs: Vec<Vec<String>> = vec![];
    let mut want: BTreeMap<(u32, u32), Option<u16>> = BTreeMap::new(); // (cp, sel) -> None = default / Some(gid)
    let mut total_len: u32 = 10 + 11 * nsel as u32;
    for _ in 0..nsel {
        let have_d = rng.chance(2, 3);
        let have_n = rng.chance(2, 3);
        let mut dt = "~".to_string();
        let mut nt = "~".to_string();
        let mut used: Vec<u32> = vec![];
        let defaults = if have_d {
            let k = rng.below(4) as usize;
            let mut c: u32 = *rng.pick(&[0x20u32, 0x4E00, 0xFFF0, 0x1F600]);
            let mut v = vec![];
            let mut parts = vec![];
            for _ in 0..k {
                // gaps 0..4; gap 0 from an aligned start gives full 256-character blocks back to back
                c += *rng.pick(&[0u32, 0, 1, 2, 3, 4]);
                // additionalCount: smallest, typical, and the u8 boundary (254, 255 = a whole block)
                let add = *rng.pick(&[0u8, 1, 3, 254, 255, 255]);
                s.count(&format!("c14:additionalCount={}", match add { 0 => "0", 1 => "1", 254 => "254", 255 => "255", _ => "other" }));
                v.push(wcmap::UnicodeRange::new(Uint24::new(c), add));
                parts.push(format!("{c}+{add}"));
                for x in c..=c + add as u32 { want.insert((x, sel_val), None); used.push(x); }
                c += add as u32 + 1;
            }
            if malformed && k > 1 && rng.chance(1, 2) {
                let (i, j) = (rng.below(k as u64) as usize, rng.below(k as u64) as usize);
                v.swap(i, j);
                parts.swap(i, j);
            }
            dt = parts.join(",");
            total_len += 4 + 4 * k as u32;
            Some(wcmap::DefaultUvs::new(k as u32, v))
        } else { None };
        let mut exp: Vec<String> = vec![];
        if dt != "~" {
            for part in dt.split(',').filter(|p| !p.is_empty()) {
                let (a, b) = part.split_once('+').unwrap();
                let (a, b): (u32, u32) = (a.parse().unwrap(), b.parse().unwrap());
                for x in a..=a + b { exp.push(format!("{x},{sel_val},default")); }
            }
        }
        let non_defaults = if have_n {
            let k = rng.below(5) as usize;
            let mut c: u32 = *rng.pick(&[0x21u32, 0x4E05, 0xFFFE, 0x1F601]);
            let mut v = vec![];
            let mut parts = vec![];
            for _ in 0..k {
                c += 1 + rng.below(4) as u32;
                let g = 1 + rng.below(900) as u16;
                v.push(wcmap::UvsMapping::new(Uint24::new(c), g));
                parts.push(format!("{c}>{g}"));
                if !used.contains(&c) { want.insert((c, sel_val), Some(g)); }
            }
            if malformed && k > 1 && rng.chance(1, 2) {
                let (i, j) = (rng.below(k as u64) as usize, rng.below(k as u64) as usize);
                v.swap(i, j);
                parts.swap(i, j);
            }
            nt = parts.join(",");
            total_len += 4 + 5 * k as u32;
            Some(wcmap::NonDefaultUvs::new(k as u32, v))
        } else { None };
        if nt != "~" {
            for part in nt.split(',').filter(|p| !p.is_empty()) {
                let (a, g) = part.split_once('>').unwrap();
                exp.push(format!("{a},{sel_val},v{g}"));
            }
        }
        exp_recs.push(exp);
        recs.push(wcmap::VariationSelector::new(Uint24::new(sel_val), defaults, non_defaults));
        toks.push(format!("{sel_val};{dt};{nt}"));
        sel_val += 1 + rng.below(3) as u32;
    }
    if malformed && nsel > 1 && rng.chance(1, 2) {
        let (i, j) = (rng.below(nsel as u64) as usize, rng.below(nsel as u64) as usize);
        recs.swap(i, j);
        toks.swap(i, j);
        exp_recs.swap(i, j);
    }
    let tt = if toks.is_empty() { "-".to_string() } else { toks.join(" ") };
    set_cur(format!("Cmap14 {tt}"));
    s.count(if malformed { "c14:malformed" } else { "c14:well-formed" });
    let sub = wcmap::CmapSubtable::format_14(total_len, nsel as u32, recs);
    let Some(bytes) = compile_one((0, 5), sub) else { s.count("c14:compile-failed"); return; };
    let font_bytes = font_with(&bytes, 1000);
    let font = match catch(|| FontRef::new(&font_bytes)) {
        Ok(Ok(f)) => f,
        other => {
            s.oracle("cmap14-font-opens", false, || format!("Cmap14 {tt}"), || format!("{:?}", other.map(|r| r.map(|_| ()).map_err(|e| e.to_string()))));
            return;
        }
    };
    let cm = match catch(|| font.charmap()) {
        Ok(cm) => cm,
        Err(m) => {
            s.oracle("cmap14-selected", false, || format!("Cmap14 {tt}"), || format!("panicked: {m}"));
            return;
        }
    };
    s.oracle("cmap14-selected", cm.has_variant_map(), || format!("Cmap14 {tt}"), || String::new());
    let mut qs: Vec<(u32, u32)> = vec![(0x41, 0xFE00), (0, 0)];
    for ((c, sel), _) in &want {
        for dc in [-1i64, 0, 1] {
            for ds in [-1i64, 0, 1] {
                if ds != 0 && dc != 0 { continue; }
                qs.push(((*c as i64 + dc).max(0) as u32, (*sel as i64 + ds).max(0) as u32));
            }
        }
    }
    qs.sort();
    qs.dedup();
    if qs.len() > 400 {
        let step = qs.len() / 400 + 1;
        qs = qs.into_iter().enumerate().filter(|(i, _)| i % step == 0).map(|(_, q)| q).collect();
    }
    let show = |v: Option<MapVariant>| match v {
        None => "none".to_string(),
        Some(MapVariant::UseDefault) => "default".into(),
        Some(MapVariant::Variant(g)) => format!("v{}", g.to_u32()),
    };
    // ---- map_variant: every call under catch; a panic is a failure of the lookup oracle
    let got: Vec<String> = qs.iter().map(|(c, sel)| match catch(|| cm.map_variant(*c, *sel)) {
        Ok(v) => show(v),
        Err(m) => format!("panicked: {m}"),
    }).collect();
    for ((c, sel), g) in qs.iter().zip(&got) {
        let panicked = g.starts_with("panicked");
        if malformed && !panicked { continue; }
        let w = match want.get(&(*c, *sel)) { None => "none".to_string(), Some(None) => "default".into(), Some(Some(g)) => format!("v{g}") };
        s.oracle("cmap14_map_variant", !panicked && *g == w, || format!("({c},{sel}) in Cmap14 {tt}"), || format!("got {g} want {w}"));
    }
    let qt = qs.iter().map(|(c, s)| format!("{c},{s}")).collect::<Vec<_>>().join(" ");
    s.case("r14.map", format!("r14.map {qt} | {tt}"), got.join(" "));
    // ---- enumeration: Charmap::variant_mappings (Cmap14Iter) yields exactly what was encoded, record by
    // record in array order: default ranges expanded, then non-default mappings (also on unsorted arrays)
    let expected: Vec<String> = exp_recs.concat();
    let items: Result<Vec<String>, String> =
        catch(|| cm.variant_mappings().take(expected.len() + 1000).map(|(c, sel, v)| format!("{c},{sel},{}", show(Some(v)))).collect());
    match items {
        Ok(items) => {
            s.oracle("cmap14_iter=encoded", items == expected, || format!("Cmap14 {tt}"), || {
                let at = items.iter().zip(&expected).position(|(a, b)| a != b).unwrap_or(items.len().min(expected.len()));
                format!("{} items, want {}; first difference at #{at}: got {:?} want {:?}", items.len(), expected.len(), items.get(at), expected.get(at))
            });
            s.case("r14.iter", format!("r14.iter {tt}"), if items.is_empty() { "-".into() } else { items.join(" ") });
        }
        Err(m) => {
            s.oracle("cmap14_iter=encoded", false, || format!("Cmap14 {tt}"), || format!("panicked: {m}"));
            s.case("r14.iter", format!("r14.iter {tt}"), format!("panicked: {m}"));
        }
    }
}

// ------------------------------------------------------------------------------------------

fn main() {
    fv_harness::main_with("C08", run);
}

fn run(cfg: &Config, s: &mut Session) {
    let mut rng = Rng::new(cfg.seed);
    let thorough = cfg.thorough();

    // --- fixed boundary mappings (every generator class named in the design)
    let mut fixed: Vec<Vec<Run>> = vec![
        vec![Run { c: 32, g: 40000, n: 1, d: 0 }],                               // gid - cp > 32767 (defect §6-1)
        vec![Run { c: 65, g: 1, n: 26, d: 1 }],
        vec![Run { c: 10, g: 1, n: 11, d: 1 }, Run { c: 30, g: 12, n: 61, d: 1 }, Run { c: 153, g: 73, n: 328, d: 1 }], // spec example
        vec![Run { c: 0xFFF0, g: 5, n: 15, d: 1 }],                              // run ending at 0xFFFE
        vec![Run { c: 0xFFF0, g: 5, n: 16, d: 1 }],                              // run ending at 0xFFFF (out of domain)
        vec![Run { c: 0xFFFF, g: 7, n: 1, d: 0 }],
        vec![Run { c: 0xFFFE, g: 7, n: 1, d: 0 }, Run { c: 0x10000, g: 8, n: 3, d: 1 }],
        vec![Run { c: 0x10000, g: 8, n: 3, d: 1 }],                              // supplementary only
        vec![Run { c: 0xFFFE, g: 7, n: 1, d: 0 }, Run { c: 0x10000, g: 8, n: 1, d: 0 }], // gids continue across the BMP edge
        vec![Run { c: 0, g: 1, n: 3, d: 1 }],                                    // starts at U+0000
        vec![Run { c: 0, g: 65535, n: 1, d: 0 }],
        vec![Run { c: 1, g: 3, n: 1, d: 0 }, Run { c: 2, g: 1, n: 1, d: 0 }, Run { c: 3, g: 4, n: 5, d: 1 }, Run { c: 8, g: 2, n: 1, d: 0 }, Run { c: 9, g: 9, n: 1, d: 0 }], // the doc comment example
        vec![Run { c: 97, g: 9, n: 1, d: 0 }, Run { c: 98, g: 3, n: 1, d: 0 }, Run { c: 99, g: 6, n: 3, d: 1 }, Run { c: 102, g: 2, n: 1, d: 0 }, Run { c: 103, g: 1, n: 1, d: 0 }],
        vec![Run { c: 65, g: 1, n: 1, d: 0 }, Run { c: 65, g: 2, n: 1, d: 0 }],  // conflict
        vec![Run { c: 65, g: 2, n: 1, d: 0 }, Run { c: 65, g: 1, n: 1, d: 0 }, Run { c: 65, g: 1, n: 1, d: 0 }],
        vec![Run { c: 65, g: 1, n: 3, d: 1 }, Run { c: 65, g: 1, n: 3, d: 1 }],  // exact duplicates
        vec![Run { c: 65, g: 0, n: 3, d: 0 }],                                   // explicit notdef (out of domain)
        vec![Run { c: 65, g: 0x10000, n: 1, d: 0 }],                             // 32-bit gid: assert!
        vec![Run { c: 0x10000, g: 0x10000, n: 1, d: 0 }],
        vec![],
        vec![Run { c: 0xD7FE, g: 5, n: 2, d: 1 }, Run { c: 0xE000, g: 7, n: 2, d: 1 }], // around the surrogate hole
        vec![Run { c: 0x10FFFE, g: 5, n: 2, d: 1 }],
    ];
    // gid − cp ∈ {−32769,−32768,32767,32768,65535}, single and as a run
    for diff in [-32769i64, -32768, -32767, 32766, 32767, 32768, 65534, 65535] {
        for n in [1u32, 3] {
            let c: i64 = if diff < 0 { 40000 } else { 0 };
            let g = c + diff;
            if g >= 1 && g + n as i64 - 1 <= 0xFFFF {
                fixed.push(vec![Run { c: c as u32, g: g as u32, n, d: 1 }]);
                // and as a non-ordered (range-offset) neighbour pair
                fixed.push(vec![Run { c: c as u32, g: g as u32, n, d: 1 }, Run { c: c as u32 + n, g: 5, n: 2, d: 0 }]);
            }
        }
    }
    for (i, runs) in fixed.iter().enumerate() {
        guarded(s, "builder", |s| builder_case(s, &mut rng, runs, thorough || i < 3, 0xFFFF));
    }

    // --- generated mappings
    let n_small = if thorough { 60000 } else { 1500 };
    for i in 0..n_small {
        let mut g = Gen { rng: &mut rng };
        let max_g = *g.rng.pick(&[0xFFFFu32, 0xFFFF, 300, 2000]);
        let start = match g.rng.below(8) {
            0 => 0,
            1 => 0xFFFF - g.rng.below(40) as u32,
            2 => 0x10000 - g.rng.below(20) as u32,
            3 => 0xD800 - g.rng.below(30) as u32,
            4 => 0x10000 + g.rng.below(20) as u32,
            _ => g.rng.below(0x3000) as u32,
        };
        let n_runs = 1 + g.rng.below(if i % 10 == 0 { 40 } else { 9 }) as usize;
        let mut runs = g.runs(start, 0x110000, n_runs, 40, max_g);
        // sometimes a second sequence in the supplementary planes
        if g.rng.chance(1, 4) {
            let st = 0x10000 + g.rng.below(0x300) as u32;
            let k = 1 + g.rng.below(4) as usize;
            runs.extend(g.runs(st, 0x110000, k, 30, max_g));
        }
        // duplicates / conflicts / order
        if !runs.is_empty() && rng.chance(1, 12) {
            let r = *rng.pick(&runs);
            runs.push(r);
        }
        if !runs.is_empty() && rng.chance(1, 25) {
            let r = *rng.pick(&runs);
            let k = rng.below(r.n as u64) as u32;
            runs.push(Run { c: r.c + k, g: 1 + rng.below(max_g as u64) as u32, n: 1, d: 0 });
        }
        if rng.chance(1, 2) {
            rng.shuffle(&mut runs);
        }
        let ng = if max_g < 0xFFFF { max_g as u16 + *rng.pick(&[1u16, 1, 0, 50]) } else { 0xFFFF };
        let all_bmp = thorough && i % 40 == 0;
        guarded(s, "builder", |s| builder_case(s, &mut rng, &runs, all_bmp, ng));
    }
    // --- large mappings: many segments / many glyph ids, up to and past the 64 KiB format-4 limit
    let n_large = if thorough { 240 } else { 8 };
    for i in 0..n_large {
        let mut g = Gen { rng: &mut rng };
        let n_runs = *g.rng.pick(&[300usize, 1000, 3000, 7000, 9000]);
        let max_len = *g.rng.pick(&[3u32, 8, 60, 400]);
        let mut runs = g.runs(0x20, 0xFFFF, n_runs, max_len, 0xFFFF);
        if i % 3 == 0 {
            // one long unordered run: > 32k glyph ids -> range offsets near the u16 limit
            runs = vec![Run { c: 0x100, g: 40000, n: 20000 + rng.below(14000) as u32, d: -1 }, Run { c: 0xA000, g: 3, n: 1 + rng.below(40) as u32, d: 0 }];
        }
        guarded(s, "builder", |s| builder_case(s, &mut rng, &runs, thorough && i % 10 == 0, 0xFFFF));
    }

    // --- readers on arbitrary tables
    let n_raw = if thorough { 80000 } else { 2500 };
    for _ in 0..n_raw {
        guarded(s, "cmap4-reader", |s| raw4_case(s, &mut rng, thorough));
        guarded(s, "cmap12-reader", |s| raw12_case(s, &mut rng));
    }
    let n_sel = if thorough { 60000 } else { 3000 };
    for _ in 0..n_sel {
        guarded(s, "selection", |s| selection_case(s, &mut rng));
    }
    for _ in 0..(n_sel / 10) {
        guarded(s, "symbol", |s| symbol_case(s, &mut rng));
    }
    for _ in 0..(n_sel / 2) {
        guarded(s, "cmap14", |s| cmap14_case(s, &mut rng));
    }
}
