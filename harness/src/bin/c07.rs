//! C07 — compilation is deterministic across threads, runs and unrelated prior work.
//!
//! Model-independent oracle on the real code: a varied set of value *recipes* (packing graphs that overflow and
//! get spaces / duplicated subgraphs; a "tie family" in which several equally distant roots of one 32-bit space are
//! duplicated in one isolation step and share descendants over paths of unequal length, so that the relative ids of
//! the copies decide the layout; a "ties" family with 2..8 EXACTLY tied candidates wherever the compile path sorts or
//! picks a maximum (shared point numbers in gvar, extension-promotion candidates of identical shape, several
//! subtables of one lookup that all have to be split, equally used IVS regions, identical lookups / features /
//! coverage / name strings); GPOS / GSUB built with the layout builders, big enough for extension
//! promotion and subtable splitting; gvar with shared tuples; item variation stores; ClassDefs; IUP; whole fonts via
//! FontBuilder; klippa subsets of the test fonts) is compiled
//!   (a) twice in a row,
//!   (b) on 16 threads at once (all threads the same value / every thread a different value),
//!   (c) after unrelated compilations and after burning arbitrary amounts of the process-wide id counter
//!       (thorough: across 2^32),
//!   (d) in fresh child processes (std's per-process `RandomState` seeds differ: this is what exposes any dependence
//!       on hash-map iteration order),
//!   (e) again after a pause of more than a second (fonts whose head has every combination of creation /
//!       modification date, built with FontBuilder and subset with klippa: any wall-clock dependence),
//!   (f) "buffer reuse": different fonts loaded one after the other into ONE allocation and handed to the entry
//!       points that take `&[u8]` (klippa subsetting, read -> to_owned -> dump_table, skrifa charmap / metrics /
//!       outlines / hinting), on one thread and on a thread per call, vs. a fresh buffer on a fresh thread: any cache
//!       keyed by address,
//! and all bytes must be identical.  A difference is reported with the recipe and the first differing offset.
//!
//! Correspondence (vs Model/Determinism.lean): the real `OBJECT_COUNTER` under real thread interleavings
//! (`sched`), `Graph::from_obj_store` / `sort_kahn` / `serialize` on mock graphs and on graphs of real tables
//! (`fromstore`, `kahn`, `pack`), and std's HashMap/BTreeSet semantics of the `isolate_subgraph_hb` root renaming
//! loop under real hash orders (`roots`).
use fv_harness::common::*;
use std::collections::{BTreeSet, HashMap};
use std::sync::{Arc, Barrier};
use write_fonts::verif_hooks::{self as hooks, LinkSpec, NodeSpec, VGraph};

use font_types::{F2Dot14, GlyphId, GlyphId16, Tag};
use read_fonts::collections::IntSet;
use read_fonts::FontRef;
use write_fonts::dump_table;
use write_fonts::tables::gpos::builders::{
    AnchorBuilder, MarkToBaseBuilder, PairPosBuilder, SinglePosBuilder, ValueRecordBuilder,
};
use write_fonts::tables::gpos::{Gpos, PositionLookup};
use write_fonts::tables::gsub::builders::{
    AlternateSubBuilder, LigatureSubBuilder, MultipleSubBuilder, SingleSubBuilder,
};
use write_fonts::tables::gsub::{Gsub, SubstitutionLookup};
use write_fonts::tables::gvar::{iup::iup_delta_optimize, GlyphDelta, GlyphDeltas, GlyphVariations, Gvar, Tent};
use write_fonts::tables::layout::builders::{Builder, ClassDefBuilder, LookupBuilder};
use write_fonts::tables::layout::{CoverageTable, FeatureList, LookupFlag, LookupList, ScriptList};
use write_fonts::tables::variations::ivs_builder::VariationStoreBuilder;
use write_fonts::tables::variations::{RegionAxisCoordinates, VariationRegion};
use write_fonts::FontBuilder;

fn main() {
    let args: Vec<String> = std::env::args().collect();
    if args.len() > 1 && args[1] == "--child" {
        child_main(&args[2..]);
        return;
    }
    fv_harness::main_with("C07", run)
}

// ------------------------------------------------------------------------------------------------
// hashing (equality detection only)

fn h64(bytes: &[u8]) -> (u64, u64) {
    let mut a: u64 = 0xcbf29ce484222325;
    let mut b: u64 = 0x9E3779B97F4A7C15;
    for &x in bytes {
        a = (a ^ x as u64).wrapping_mul(0x100000001b3);
        b = (b.rotate_left(5) ^ x as u64).wrapping_mul(0xff51afd7ed558ccd);
    }
    (a, b)
}

fn sig(bytes: &[u8]) -> String {
    let (a, b) = h64(bytes);
    format!("{}:{:016x}{:016x}", bytes.len(), a, b)
}

fn first_diff(a: &[u8], b: &[u8]) -> String {
    let n = a.len().min(b.len());
    let at = (0..n).find(|&i| a[i] != b[i]);
    match at {
        Some(i) => {
            let lo = i.saturating_sub(4);
            format!(
                "first differing offset {i} (lengths {} / {}): …{} vs …{}",
                a.len(),
                b.len(),
                hex(&a[lo..(i + 8).min(a.len())]),
                hex(&b[lo..(i + 8).min(b.len())])
            )
        }
        None if a.len() != b.len() => format!("one output is a prefix of the other (lengths {} / {})", a.len(), b.len()),
        None => "identical".into(),
    }
}

// ------------------------------------------------------------------------------------------------
// recipes: (kind, seed) -> bytes.  Everything random derives from the seed; nothing from the environment.

const KINDS: [&str; 15] = ["mock", "gpos", "gsub", "gvar", "ivs", "classdef", "iup", "font", "subset", "mockbig", "spacefam", "tiefam", "pairfam", "dates", "ties"];

#[derive(Clone, Debug)]
struct Recipe {
    kind: &'static str,
    seed: u64,
}

impl Recipe {
    fn show(&self) -> String {
        if self.kind == "ties" {
            return format!("recipe kind={} seed={} {}", self.kind, self.seed, ties_family(self.seed, &mut Rng::new(self.seed), false).0);
        }
        if self.kind == "dates" {
            return format!("recipe kind={} seed={} {}", self.kind, self.seed, dates_plan(self.seed, &mut Rng::new(self.seed)).describe());
        }
        if self.kind == "tiefam" || self.kind == "pairfam" {
            // the graph itself: index(size):target/width,…  (index 0 is the root; /4 = Offset32, /2 = Offset16)
            let nodes = if self.kind == "tiefam" { tie_spec(&mut Rng::new(self.seed)).0 } else { pair_spec(&mut Rng::new(self.seed)) };
            let g: Vec<String> = nodes
                .iter()
                .enumerate()
                .map(|(i, n)| format!("{i}({}):{}", n.size, if n.links.is_empty() { "-".to_string() } else { n.links.iter().map(|(t, w)| format!("{t}/{w}")).collect::<Vec<_>>().join(",") }))
                .collect();
            return format!("recipe kind={} seed={} graph {}", self.kind, self.seed, g.join(" "));
        }
        format!("recipe kind={} seed={}", self.kind, self.seed)
    }
}

fn recipes(cfg_seed: u64, thorough: bool) -> Vec<Recipe> {
    let per_kind: &[(usize, usize)] = &[(120, 1200), (40, 300), (30, 200), (40, 300), (40, 300), (50, 400), (30, 300), (20, 150), (40, 300), (60, 500), (120, 1000), (100, 800), (60, 500), (48, 240), (60, 480)];
    let mut out = vec![];
    for (k, kind) in KINDS.iter().enumerate() {
        let n = if thorough { per_kind[k].1 } else { per_kind[k].0 };
        for i in 0..n {
            out.push(Recipe { kind, seed: cfg_seed.wrapping_mul(1_000_003).wrapping_add((k * 100_000 + i) as u64) });
        }
    }
    out
}

/// Compile one recipe with the real code. Panics are outcomes too (and must be just as repeatable).
fn compile(r: &Recipe) -> Vec<u8> {
    let rr = r.clone();
    match catch(move || compile_inner(&rr)) {
        Ok(b) => b,
        Err(msg) => format!("PANIC:{msg}").into_bytes(),
    }
}

fn compile_inner(r: &Recipe) -> Vec<u8> {
    let mut rng = Rng::new(r.seed);
    match r.kind {
        "mock" => mock_graph(&mut rng, false),
        "mockbig" => mock_graph(&mut rng, true),
        "spacefam" => space_family(&mut rng),
        "tiefam" => tie_family(&mut rng),
        "pairfam" => pair_family(&mut rng),
        "dates" => dates_family(r.seed, &mut rng),
        "ties" => ties_family(r.seed, &mut rng, true).1,
        "gpos" => gpos(&mut rng),
        "gsub" => gsub(&mut rng),
        "gvar" => gvar(&mut rng),
        "ivs" => ivs(&mut rng),
        "classdef" => classdef(&mut rng),
        "iup" => iup(&mut rng),
        "font" => font(&mut rng),
        "subset" => subset(&mut rng),
        _ => unreachable!(),
    }
}

fn res<T: std::fmt::Debug>(r: Result<Vec<u8>, T>) -> Vec<u8> {
    match r {
        Ok(b) => b,
        Err(e) => {
            // error values may embed ObjectIds (PackingError carries the graph): only the variant name is stable
            let s = format!("{e:?}");
            let head: String = s.chars().take_while(|c| c.is_alphanumeric() || *c == '_').collect();
            format!("ERR:{head}").into_bytes()
        }
    }
}

// ---- mock packing graphs -------------------------------------------------------------------------

/// layered DAG; `big` makes 16-bit overflows (so: shortest-distance sort, spaces, isolation, duplication) likely
fn mock_spec(rng: &mut Rng, big: bool) -> (Vec<NodeSpec>, usize) {
    let n = if big { rng.range(6, 40) as usize } else { rng.range(1, 14) as usize };
    let mut specs: Vec<NodeSpec> = vec![];
    // every node j >= 1 gets a parent i < j (all reachable from the root, acyclic); then extra links i -> j (shared
    // children: these are what isolation has to duplicate)
    let mut targets: Vec<Vec<usize>> = vec![vec![]; n];
    for j in 1..n {
        let span = if rng.chance(1, 3) { j } else { j.min(3) };
        let i = j - 1 - rng.below(span as u64) as usize;
        targets[i].push(j);
    }
    let extra_links = rng.below(n as u64 + 1) as usize;
    for _ in 0..extra_links {
        if n >= 2 {
            let i = rng.below(n as u64 - 1) as usize;
            let j = rng.range(i as i64 + 1, n as i64 - 1) as usize;
            if targets[i].len() < 8 {
                targets[i].push(j);
            }
        }
    }
    let wide_bias = rng.below(4); // 0: no 32-bit links
    for i in 0..n {
        let mut links = vec![];
        let mut pos = 0u32;
        rng.shuffle(&mut targets[i]);
        for &target in &targets[i] {
            let width = if wide_bias > 0 && rng.below(4) < wide_bias { 4 } else if rng.chance(1, 12) { 3 } else { 2 };
            links.push(LinkSpec { pos, width, target, adjustment: 0 });
            pos += width as u32;
        }
        let extra = if big {
            match rng.below(6) {
                0 => rng.range(20_000, 66_000) as usize,
                1 => rng.range(1000, 9000) as usize,
                _ => rng.range(0, 64) as usize,
            }
        } else {
            rng.range(0, 12) as usize
        };
        let len = pos as usize + extra;
        let mut bytes = vec![0u8; len];
        for (k, b) in bytes.iter_mut().enumerate().take(64) {
            *b = (i as u8).wrapping_mul(31).wrapping_add(k as u8);
        }
        let burn_ids = if rng.chance(1, 4) { rng.below(5) as u32 } else { 0 };
        specs.push(NodeSpec { bytes, links, burn_ids });
    }
    (specs, 0)
}

/// Graphs aimed at `assign_spaces_hb` / `isolate_subgraph_hb` / `duplicate_subgraph` / `try_isolating_subgraphs`:
/// a root with 32-bit links to several space roots, some of which ALSO have a 16-bit parent (the space root itself is
/// duplicated), children shared between space roots and with the 16-bit world (duplicated during isolation, several
/// per call), and enough bulk per space that the space overflows again and half of its roots must be moved.
fn space_family(rng: &mut Rng) -> Vec<u8> {
    let k = rng.range(2, 7) as usize; // space roots
    let n_shared = rng.range(1, 5) as usize;
    let n_own = rng.range(0, 3) as usize;
    // index plan: 0 root, 1 = X (a 16-bit parent in space 0), 2..2+k space roots, then shared children, then own children
    let first_root = 2;
    let first_shared = first_root + k;
    let first_own = first_shared + n_shared;
    let total = first_own + k * n_own;
    let mut targets: Vec<Vec<(usize, u8)>> = vec![vec![]; total];
    targets[0].push((1, 2));
    for r in 0..k {
        targets[0].push((first_root + r, 4));
        if rng.chance(1, 3) {
            targets[1].push((first_root + r, 2)); // narrow parent as well: the space root gets duplicated
        }
        if rng.chance(1, 6) {
            targets[0].push((first_root + r, 4)); // a second wide link
        }
        for c in 0..n_shared {
            if rng.chance(2, 3) {
                targets[first_root + r].push((first_shared + c, if rng.chance(1, 5) { 4 } else { 2 }));
            }
        }
        for c in 0..n_own {
            targets[first_root + r].push((first_own + r * n_own + c, 2));
        }
    }
    for c in 0..n_shared {
        if rng.chance(1, 2) {
            targets[1].push((first_shared + c, 2)); // shared with the 16-bit world
        }
        if c + 1 < n_shared && rng.chance(1, 3) {
            targets[first_shared + c].push((first_shared + c + 1, 2));
        }
    }
    // every node needs a parent: unreferenced shared children hang off X
    let mut referenced = vec![false; total];
    referenced[0] = true;
    for ts in &targets {
        for (t, _) in ts {
            referenced[*t] = true;
        }
    }
    for i in 1..total {
        if !referenced[i] {
            targets[1].push((i, 2));
        }
    }
    let bulk = *rng.pick(&[9_000usize, 17_000, 23_000, 31_000, 40_000]);
    let mut specs = vec![];
    for i in 0..total {
        if rng.chance(1, 2) {
            rng.shuffle(&mut targets[i]);
        }
        let mut links = vec![];
        let mut pos = 0u32;
        for &(target, width) in &targets[i] {
            links.push(LinkSpec { pos, width, target, adjustment: 0 });
            pos += width as u32;
        }
        let extra = if i >= first_shared {
            if rng.chance(3, 4) { bulk + rng.range(0, 3000) as usize } else { rng.range(0, 200) as usize }
        } else {
            rng.range(0, 40) as usize
        };
        let mut bytes = vec![0u8; pos as usize + extra];
        for (j, b) in bytes.iter_mut().enumerate().take(48) {
            *b = (i as u8).wrapping_mul(37).wrapping_add(j as u8);
        }
        specs.push(NodeSpec { bytes, links, burn_ids: if rng.chance(1, 5) { rng.below(4) as u32 } else { 0 } });
    }
    let mut g = VGraph::new(&specs, 0);
    let out = match g.dump() {
        Some(b) => b,
        None => b"PACKFAIL".to_vec(),
    };
    // statistics only (never compared): how far packing had to go
    SPACEFAM_STATS.with(|c| c.set((g.object_count() as u32, total as u32, g.next_space())));
    out
}

thread_local! {
    static SPACEFAM_STATS: std::cell::Cell<(u32, u32, u32)> = const { std::cell::Cell::new((0, 0, 0)) };
}

// ---- "tie family": several roots of ONE 32-bit space that are all duplicated in one isolate_subgraph_hb call ------

/// One object of a tie-family graph: total size in bytes and (target index, offset width) links. The encoded
/// object is: the offsets, a 4-byte tag unique to the index (no two objects are equal, so the ObjectStore merges
/// nothing), 0xEF padding up to `size`.
#[derive(Clone, Debug)]
struct TNode {
    size: usize,
    links: Vec<(usize, u8)>,
}

/// What the generated shape contains (statistics only; never part of the compared bytes).
#[derive(Clone, Copy, Debug, Default)]
struct TieShape {
    /// space roots that also have a 16-bit parent (each one is duplicated together with its subgraph)
    dup_roots: usize,
    /// at least two of those have the same size, i.e. the same distance from the graph root
    tied: bool,
    /// a descendant common to two tied duplicated roots, reached over paths of unequal length
    unequal_paths: bool,
    /// … and a further object of the space whose distance lies strictly between the two candidates
    between: bool,
}

/// The shape that makes the RELATIVE ids of duplicated objects observable in the output:
///
/// ```text
///   root =32=> BIG -16-> T <-16- root          (overflows under the plain sorts: assign_spaces_hb runs)
///   root =32=> P_1 … P_k   and   root -16-> Q -16-> P_i   (the space roots are shared with the 16-bit world)
///   P_a -> … -> Z_j <- … <- P_b                (common descendants over chains of 0..3 intermediate objects)
///   P_i -> W                                   (leaves whose size falls between the candidate distances of a Z)
/// ```
///
/// `update_distances` pops a heap keyed by (distance, ObjectId): roots of equal size tie and are visited in id
/// order, a common descendant keeps the distance of the first visit, and `sort_shortest_distance` then places it
/// before or after the in-between leaf. Everything is randomised around that shape (number of roots, which roots Q
/// reaches, sizes with and without ties, shared chains, objects shared with the 16-bit world, link order).
fn tie_spec(rng: &mut Rng) -> (Vec<TNode>, TieShape) {
    let k = *rng.pick(&[2usize, 2, 2, 3, 3, 4, 5]);
    let mut nodes: Vec<TNode> = vec![];
    let add = |nodes: &mut Vec<TNode>, size: usize| {
        nodes.push(TNode { size, links: vec![] });
        nodes.len() - 1
    };
    let root = add(&mut nodes, 0);
    let q = add(&mut nodes, 0);
    // the overflow gadget: T must be placed behind everything that refers to it
    let t = add(&mut nodes, rng.range(8, 40) as usize);
    let mut root_links: Vec<(usize, u8)> = vec![(t, 2), (q, 2)];
    if rng.chance(3, 4) {
        let big = add(&mut nodes, 65535 - rng.below(12) as usize);
        nodes[big].links.push((t, 2));
        root_links.push((big, 4));
    } else {
        // two blocks that share T: a second space with two roots that overflows again (try_isolating_subgraphs)
        for size in [rng.range(36_000, 44_000) as usize, rng.range(30_000, 36_000) as usize] {
            let b = add(&mut nodes, size);
            nodes[b].links.push((t, 2));
            root_links.push((b, 4));
        }
    }
    // the space roots
    let tie = rng.chance(5, 6);
    let psize0 = *rng.pick(&[12usize, 20, 24, 40, 64]);
    let roots: Vec<usize> = (0..k)
        .map(|_| {
            let size = if tie { psize0 } else { psize0 + 2 * rng.below(4) as usize };
            add(&mut nodes, size)
        })
        .collect();
    let mut in_q: Vec<bool> = (0..k).map(|_| rng.chance(5, 6)).collect();
    if in_q.iter().filter(|b| **b).count() < 2 {
        in_q = vec![true; k];
    }
    for (i, &p) in roots.iter().enumerate() {
        root_links.push((p, 4));
        if rng.chance(1, 8) {
            root_links.push((p, 4)); // a second wide link
        }
        if in_q[i] {
            nodes[q].links.push((p, 2));
        }
    }
    // common descendants; path_len[r][j] = bytes between root r and the end of Z_j along r's chain
    let m = rng.range(1, 3) as usize;
    let mut shape = TieShape { dup_roots: in_q.iter().filter(|b| **b).count(), ..Default::default() };
    let mut inner: Vec<usize> = vec![]; // chain objects (leaves may hang off them too)
    for _ in 0..m {
        let mut chain_heads: Vec<(usize, usize, usize)> = vec![]; // (owner root index, head object, bytes head..=Z)
        let zsize = rng.range(40, 400) as usize;
        let z = add(&mut nodes, zsize);
        let mut order: Vec<usize> = (0..k).collect();
        rng.shuffle(&mut order);
        let reach = rng.range(2, k as i64) as usize;
        let mut dists: Vec<(usize, usize)> = vec![]; // (root index, distance of Z below that root)
        for (n, &r) in order.iter().take(reach).enumerate() {
            // sometimes join the chain another root already has to this Z
            let heads: Vec<(usize, usize, usize)> = chain_heads.iter().copied().filter(|(o, _, _)| *o != r).collect();
            if n > 0 && !heads.is_empty() && rng.chance(1, 6) {
                let (_, h, d) = *rng.pick(&heads);
                if !nodes[roots[r]].links.iter().any(|(t, _)| *t == h) {
                    nodes[roots[r]].links.push((h, 2));
                    dists.push((r, d));
                    continue;
                }
            }
            let len = if n == 0 && rng.chance(2, 3) { 0 } else { rng.below(4) as usize };
            let mut total = zsize;
            let mut next = z;
            let mut head = None;
            for _ in 0..len {
                let ysize = rng.range(50, 300) as usize;
                let y = add(&mut nodes, ysize);
                nodes[y].links.push((next, 2));
                total += ysize;
                next = y;
                head = Some(y);
                inner.push(y);
            }
            nodes[roots[r]].links.push((next, if rng.chance(1, 10) { 4 } else { 2 }));
            if let Some(h) = head {
                chain_heads.push((r, h, total));
            }
            dists.push((r, total));
        }
        // what the shape offers to an id-dependent tie-break
        let mut window: Option<(usize, usize)> = None;
        for a in 0..dists.len() {
            for b in 0..dists.len() {
                let ((ra, da), (rb, db)) = (dists[a], dists[b]);
                if ra != rb && in_q[ra] && in_q[rb] && nodes[roots[ra]].size == nodes[roots[rb]].size {
                    shape.tied = true;
                    if da < db {
                        shape.unequal_paths = true;
                        if window.map_or(true, |(lo, hi)| db - da > hi - lo) {
                            window = Some((da, db));
                        }
                    }
                }
            }
        }
        // leaves: most of them sized to fall between the two candidate distances of this Z
        for _ in 0..rng.range(0, 2) {
            let wsize = match window {
                Some((lo, hi)) if hi - lo >= 2 && rng.chance(4, 5) => {
                    shape.between = true;
                    rng.range(lo as i64 + 1, hi as i64 - 1) as usize
                }
                _ => rng.range(30, 700) as usize,
            };
            let w = add(&mut nodes, wsize);
            let parent = if !inner.is_empty() && rng.chance(1, 8) { *rng.pick(&inner) } else { roots[order[rng.below(reach as u64) as usize]] };
            nodes[parent].links.push((w, 2));
        }
        if rng.chance(1, 8) {
            nodes[q].links.push((z, 2)); // also shared with the 16-bit world directly
        }
    }
    if rng.chance(1, 2) {
        rng.shuffle(&mut root_links);
    }
    nodes[root].links = root_links;
    for n in nodes.iter_mut() {
        if rng.chance(1, 3) {
            rng.shuffle(&mut n.links);
        }
        let fixed = 4 + n.links.iter().map(|(_, w)| *w as usize).sum::<usize>();
        n.size = n.size.max(fixed);
    }
    (nodes, shape)
}

fn tie_tag(i: usize) -> [u8; 4] {
    [0x54, 0x49, (i >> 8) as u8, i as u8]
}

/// The same objects as a value of a table type: compiled through `dump_table` (TableWriter, ObjectStore, ids in
/// post-order of the traversal) like any generated table.
struct TieTable<'a> {
    nodes: &'a [TNode],
    at: usize,
}

impl write_fonts::FontWrite for TieTable<'_> {
    fn write_into(&self, writer: &mut write_fonts::TableWriter) {
        let n = &self.nodes[self.at];
        let mut used = 4;
        for (target, width) in &n.links {
            writer.write_offset(&TieTable { nodes: self.nodes, at: *target }, *width as usize);
            used += *width as usize;
        }
        writer.write_slice(&tie_tag(self.at));
        writer.write_slice(&vec![0xEF; n.size - used]);
    }
}

impl write_fonts::validate::Validate for TieTable<'_> {
    fn validate_impl(&self, _ctx: &mut write_fonts::validate::ValidationCtx) {}
}

fn tie_family(rng: &mut Rng) -> Vec<u8> {
    let (nodes, shape) = tie_spec(rng);
    TIEFAM_SHAPE.with(|c| c.set(shape));
    if rng.chance(1, 2) {
        // the public path: value -> TableWriter -> ObjectStore -> Graph -> pack_objects -> serialize
        return res(dump_table(&TieTable { nodes: &nodes, at: 0 }));
    }
    // the mock-graph path of the other packing recipes (ids in index order, optionally with gaps)
    let specs: Vec<NodeSpec> = nodes
        .iter()
        .enumerate()
        .map(|(i, n)| {
            let mut bytes = vec![0xEFu8; n.size];
            let mut links = vec![];
            let mut pos = 0u32;
            for (target, width) in &n.links {
                bytes[pos as usize..(pos + *width as u32) as usize].fill(0);
                links.push(LinkSpec { pos, width: *width, target: *target, adjustment: 0 });
                pos += *width as u32;
            }
            bytes[pos as usize..pos as usize + 4].copy_from_slice(&tie_tag(i));
            NodeSpec { bytes, links, burn_ids: if rng.chance(1, 6) { rng.below(4) as u32 } else { 0 } }
        })
        .collect();
    let mut g = VGraph::new(&specs, 0);
    match g.dump() {
        Some(b) => b,
        None => b"PACKFAIL".to_vec(),
    }
}

thread_local! {
    static TIEFAM_SHAPE: std::cell::Cell<TieShape> = const { std::cell::Cell::new(TieShape { dup_roots: 0, tied: false, unequal_paths: false, between: false }) };
}

// ---- "pair family": several roots of one 32-bit space that share a 16-bit descendant; nothing is duplicated when
// ---- spaces are assigned, the space overflows below the shared object and isolating ANY of the roots cures it ----

/// ```text
///   root =32=> R_1 … R_k (k = 2, rarely 3);  R_i -16-> its own bulk (33..34.5 KB in 1..3 objects), R_i -16-> M
///   M -16-> (N -16->)* L   (L: 25..30 KB)      [sometimes root =32=> W (70 KB), root -16-> Z as well]
/// ```
/// With all roots in one space the bulk sits between M and L (M -> L, or the last N -> L, does not fit in 16
/// bits: Kahn and shortest-distance order both overflow); with one root moved to its own space (own copies of
/// M … L) both fit. Which root `try_isolating_subgraphs` moves is decided by `find_root_of_space`, which walks up
/// `parents[0]` from the overflowing object: the result depends on the ORDER of the parent lists. Compiled through
/// `dump_table` on a `FontWrite` value (a mock table, not GSUB/GPOS: no promotion, nothing rebuilds the parent
/// lists before the first isolation round).
fn pair_spec(rng: &mut Rng) -> Vec<TNode> {
    let mut nodes: Vec<TNode> = vec![];
    let add = |nodes: &mut Vec<TNode>, size: usize| {
        nodes.push(TNode { size, links: vec![] });
        nodes.len() - 1
    };
    let root = add(&mut nodes, 0);
    let k = if rng.chance(1, 6) { 3 } else { 2 };
    // the shared tail M -> (N ->)* L
    let m = add(&mut nodes, rng.range(20, 200) as usize);
    let mut tail = m;
    for _ in 0..*rng.pick(&[0usize, 0, 0, 1, 2]) {
        let n = add(&mut nodes, rng.range(10, 120) as usize);
        nodes[tail].links.push((n, 2));
        tail = n;
    }
    let l = add(&mut nodes, rng.range(25_000, 30_000) as usize);
    nodes[tail].links.push((l, 2));
    if rng.chance(1, 4) {
        let leaf = add(&mut nodes, rng.range(10, 300) as usize);
        nodes[m].links.push((leaf, 2)); // a small second child of M
    }
    let mut root_links: Vec<(usize, u8)> = vec![];
    if rng.chance(1, 2) {
        let w = add(&mut nodes, rng.range(66_000, 72_000) as usize);
        let z = add(&mut nodes, rng.range(8, 40) as usize);
        root_links.push((w, 4));
        root_links.push((z, 2));
    }
    for _ in 0..k {
        let r = add(&mut nodes, rng.range(12, 140) as usize);
        let parts = *rng.pick(&[1usize, 2, 2, 2, 3]);
        let bulk = rng.range(33_000, 34_500) as usize;
        let mut links: Vec<(usize, u8)> = vec![];
        for part in 0..parts {
            // unequal parts, every one smaller than L (so all of them are placed before L)
            let size = bulk / parts + if part % 2 == 0 { rng.below(200) as usize } else { 0 };
            let b = add(&mut nodes, size.min(24_000));
            links.push((b, 2));
        }
        links.push((m, 2));
        if rng.chance(1, 2) {
            rng.shuffle(&mut links);
        }
        nodes[r].links = links;
        root_links.push((r, 4));
    }
    if rng.chance(1, 2) {
        rng.shuffle(&mut root_links);
    }
    nodes[root].links = root_links;
    for n in nodes.iter_mut() {
        let fixed = 4 + n.links.iter().map(|(_, w)| *w as usize).sum::<usize>();
        n.size = n.size.max(fixed);
    }
    nodes
}

fn pair_family(rng: &mut Rng) -> Vec<u8> {
    let nodes = pair_spec(rng);
    res(dump_table(&TieTable { nodes: &nodes, at: 0 }))
}

// ---- "dates": fonts whose head table carries every combination of creation / modification date ------------------

/// 2023-11-14 22:13:20 UTC as seconds since 1904-01-01
const A_REAL_DATE: i64 = 1_700_000_000 + 2_082_844_800;

struct DatesPlan {
    created: i64,
    modified: i64,
    /// build a font with FontBuilder directly / subset (klippa) a test font whose head was given these dates
    subset_of: Option<&'static str>,
    font_revision: i32,
    units_per_em: u16,
    flags: u16,
}

impl DatesPlan {
    fn describe(&self) -> String {
        format!(
            "head.created={} head.modified={} fontRevision={:#x} unitsPerEm={} flags={} via {}",
            self.created,
            self.modified,
            self.font_revision,
            self.units_per_em,
            self.flags,
            match self.subset_of {
                None => "FontBuilder (head, maxp, hhea, post + raw tables)".to_string(),
                Some(name) => format!("klippa::subset_font of font-test-data {name} with these dates patched into its head"),
            }
        )
    }
}

/// created ∈ {0, 1, a real date} × modified ∈ {0, 1, a real date, before created}: the combination is a function of
/// the recipe index (every combination occurs, directly built and subset), the rest of the seed
fn dates_plan(seed: u64, rng: &mut Rng) -> DatesPlan {
    let i = (seed % 100_000) as usize;
    let created = [0i64, 1, A_REAL_DATE][i % 3];
    let modified = match (i / 3) % 4 {
        0 => 0,
        1 => 1,
        2 => A_REAL_DATE + 86_400,
        _ => created - 1 - rng.below(1000) as i64,
    };
    let subsettable = ["SIMPLE_GLYF", "GLYF_COMPONENTS", "VAZIRMATN_VAR", "TINOS_SUBSET", "CMAP12_FONT1"];
    let subset_of = if (i / 12) % 2 == 1 { Some(*rng.pick(&subsettable)) } else { None };
    DatesPlan {
        created,
        modified,
        subset_of,
        font_revision: *rng.pick(&[0i32, 0, 0x10000, 0x28000]),
        units_per_em: *rng.pick(&[0u16, 1000, 2048]),
        flags: *rng.pick(&[0u16, 0, 3, 0x000b]),
    }
}

/// overwrite head.created / head.modified (and revision, flags, unitsPerEm) in the bytes of a font file
fn patch_head(font: &mut [u8], plan: &DatesPlan) -> bool {
    let n = u16::from_be_bytes([font[4], font[5]]) as usize;
    for t in 0..n {
        let rec = 12 + 16 * t;
        if &font[rec..rec + 4] == b"head" {
            let off = u32::from_be_bytes([font[rec + 8], font[rec + 9], font[rec + 10], font[rec + 11]]) as usize;
            if off + 54 > font.len() {
                return false;
            }
            font[off + 4..off + 8].copy_from_slice(&plan.font_revision.to_be_bytes());
            font[off + 16..off + 18].copy_from_slice(&plan.flags.to_be_bytes());
            if plan.units_per_em != 0 {
                font[off + 18..off + 20].copy_from_slice(&plan.units_per_em.to_be_bytes());
            }
            font[off + 20..off + 28].copy_from_slice(&plan.created.to_be_bytes());
            font[off + 28..off + 36].copy_from_slice(&plan.modified.to_be_bytes());
            return true;
        }
    }
    false
}

fn dates_family(seed: u64, rng: &mut Rng) -> Vec<u8> {
    use write_fonts::tables::{head::Head, hhea::Hhea, maxp::Maxp};
    let plan = dates_plan(seed, rng);
    match plan.subset_of {
        None => {
            let head = Head {
                font_revision: font_types::Fixed::from_bits(plan.font_revision),
                flags: plan.flags,
                units_per_em: plan.units_per_em,
                created: font_types::LongDateTime::new(plan.created),
                modified: font_types::LongDateTime::new(plan.modified),
                ..Default::default()
            };
            let mut fb = FontBuilder::new();
            let _ = fb.add_table(&head);
            let _ = fb.add_table(&Maxp::new(rng.range(1, 40) as u16));
            let _ = fb.add_table(&Hhea { number_of_h_metrics: 1, ..Default::default() });
            let names = ["a", "b", ".notdef", "A"];
            let _ = fb.add_table(&write_fonts::tables::post::Post::new_v2(names.iter().copied().take(rng.range(1, 4) as usize)));
            for _ in 0..rng.range(0, 4) {
                let tag = Tag::new(&[b'z', b'a' + rng.below(26) as u8, b'0' + rng.below(10) as u8, b' ']);
                let len = rng.range(0, 90) as usize;
                fb.add_raw(tag, rng.bytes(len));
            }
            fb.build()
        }
        Some(name) => {
            use klippa::{subset_font, Plan, SubsetFlags};
            let Some((_, data)) = test_fonts().into_iter().find(|(n, _)| *n == name) else { return b"ERR:nofont".to_vec() };
            let mut bytes = data.to_vec();
            if !patch_head(&mut bytes, &plan) {
                return b"ERR:nohead".to_vec();
            }
            let Ok(font) = FontRef::new(&bytes) else { return b"ERR:open".to_vec() };
            let num = font.table_data(Tag::new(b"maxp")).map(|d| u16::from_be_bytes([d.as_bytes()[4], d.as_bytes()[5]])).unwrap_or(1) as u64;
            let mut gids = IntSet::<GlyphId>::empty();
            for _ in 0..rng.range(1, 4) {
                gids.insert(GlyphId::new(rng.below(num.max(1)) as u32));
            }
            let mut unicodes = IntSet::<u32>::empty();
            for _ in 0..rng.range(0, 8) {
                unicodes.insert(rng.range(0x20, 0x7e) as u32);
            }
            let mut layout_scripts = IntSet::<Tag>::empty();
            layout_scripts.invert();
            let mut layout_features = IntSet::<Tag>::empty();
            layout_features.extend(klippa::DEFAULT_LAYOUT_FEATURES.iter().copied());
            let mut name_ids = IntSet::<font_types::NameId>::empty();
            name_ids.insert_range(font_types::NameId::from(0)..=font_types::NameId::from(6));
            let mut name_languages = IntSet::<u16>::empty();
            name_languages.insert(0x0409);
            let plan = Plan::new(&gids, &unicodes, &font, SubsetFlags::default(), &IntSet::<Tag>::empty(), &layout_scripts, &layout_features, &name_ids, &name_languages);
            match subset_font(&font, &plan) {
                Ok(b) => b,
                Err(e) => format!("ERR:{e:?}").into_bytes(),
            }
        }
    }
}

// ---- buffer reuse: entry points that take `&[u8]`, given DIFFERENT fonts at the SAME address and length -----------

const ENTRIES: [&str; 4] = ["klippa-subset(glyph ids + codepoints)", "klippa-subset(many codepoints)", "read tables -> to_owned -> dump_table", "skrifa charmap + metrics + unhinted/hinted outlines"];

#[derive(Default)]
struct TextPen(String);
impl skrifa::outline::OutlinePen for TextPen {
    fn move_to(&mut self, x: f32, y: f32) {
        self.0.push_str(&format!("M{:08x}{:08x}", x.to_bits(), y.to_bits()));
    }
    fn line_to(&mut self, x: f32, y: f32) {
        self.0.push_str(&format!("L{:08x}{:08x}", x.to_bits(), y.to_bits()));
    }
    fn quad_to(&mut self, a: f32, b: f32, x: f32, y: f32) {
        self.0.push_str(&format!("Q{:08x}{:08x}{:08x}{:08x}", a.to_bits(), b.to_bits(), x.to_bits(), y.to_bits()));
    }
    fn curve_to(&mut self, a: f32, b: f32, c: f32, d: f32, x: f32, y: f32) {
        self.0.push_str(&format!("C{:08x}{:08x}{:08x}{:08x}{:08x}{:08x}", a.to_bits(), b.to_bits(), c.to_bits(), d.to_bits(), x.to_bits(), y.to_bits()));
    }
    fn close(&mut self) {
        self.0.push('Z');
    }
}

/// one entry point on the font file at `bytes`; everything random derives from `seed`
fn entry_point(entry: usize, seed: u64, bytes: &[u8]) -> Vec<u8> {
    let bytes_ptr = bytes;
    match catch(move || entry_point_inner(entry, seed, bytes_ptr)) {
        Ok(b) => b,
        Err(msg) => format!("PANIC:{msg}").into_bytes(),
    }
}

fn entry_point_inner(entry: usize, seed: u64, bytes: &[u8]) -> Vec<u8> {
    use skrifa::MetadataProvider;
    let mut rng = Rng::new(seed);
    let Ok(font) = FontRef::new(bytes) else { return b"ERR:open".to_vec() };
    match entry {
        0 | 1 => {
            use klippa::{subset_font, Plan, SubsetFlags};
            if font.table_data(Tag::new(b"cmap")).is_none() {
                return b"ERR:nocmap".to_vec();
            }
            let num = font.table_data(Tag::new(b"maxp")).map(|d| u16::from_be_bytes([d.as_bytes()[4], d.as_bytes()[5]])).unwrap_or(1) as u64;
            let mut gids = IntSet::<GlyphId>::empty();
            let mut unicodes = IntSet::<u32>::empty();
            if entry == 0 {
                for _ in 0..rng.range(1, 4) {
                    gids.insert(GlyphId::new(rng.below(num.max(1)) as u32));
                }
                unicodes.insert_range(0x61..=0x63);
                for _ in 0..rng.range(0, 6) {
                    unicodes.insert(rng.range(0x20, 0x700) as u32);
                }
            } else {
                // at least as many codepoints as the font has glyphs
                unicodes.insert_range(0x20..=(0x20 + num as u32 + rng.below(300) as u32));
                unicodes.insert_range(0x600..=0x6ff);
                unicodes.insert_range(0xe000..=0xe400);
            }
            let mut layout_scripts = IntSet::<Tag>::empty();
            layout_scripts.invert();
            let mut layout_features = IntSet::<Tag>::empty();
            layout_features.extend(klippa::DEFAULT_LAYOUT_FEATURES.iter().copied());
            let mut name_ids = IntSet::<font_types::NameId>::empty();
            name_ids.insert_range(font_types::NameId::from(0)..=font_types::NameId::from(6));
            let mut name_languages = IntSet::<u16>::empty();
            name_languages.insert(0x0409);
            let plan = Plan::new(&gids, &unicodes, &font, SubsetFlags::default(), &IntSet::<Tag>::empty(), &layout_scripts, &layout_features, &name_ids, &name_languages);
            match subset_font(&font, &plan) {
                Ok(b) => b,
                Err(e) => format!("ERR:{e:?}").into_bytes(),
            }
        }
        2 => {
            use read_fonts::TableProvider;
            use write_fonts::from_obj::ToOwnedTable;
            use write_fonts::tables as wt;
            let mut out = vec![];
            macro_rules! reser {
                ($get:ident, $ty:ty) => {
                    match font.$get() {
                        Ok(t) => {
                            let owned: $ty = t.to_owned_table();
                            out.extend_from_slice(stringify!($get).as_bytes());
                            out.extend(res(dump_table(&owned)));
                        }
                        Err(_) => out.extend_from_slice(concat!(stringify!($get), ":none;").as_bytes()),
                    }
                };
            }
            reser!(cmap, wt::cmap::Cmap);
            reser!(name, wt::name::Name);
            reser!(post, wt::post::Post);
            reser!(head, wt::head::Head);
            reser!(hhea, wt::hhea::Hhea);
            reser!(maxp, wt::maxp::Maxp);
            reser!(os2, wt::os2::Os2);
            reser!(gdef, wt::gdef::Gdef);
            reser!(gsub, wt::gsub::Gsub);
            reser!(gpos, wt::gpos::Gpos);
            reser!(fvar, wt::fvar::Fvar);
            reser!(avar, wt::avar::Avar);
            out
        }
        _ => {
            use skrifa::instance::{LocationRef, Size};
            use skrifa::outline::{DrawSettings, HintingInstance, HintingOptions};
            let mut out = String::new();
            for (cp, gid) in font.charmap().mappings().take(40) {
                out.push_str(&format!("{cp:x}>{};", gid.to_u32()));
            }
            let size = Size::new(*rng.pick(&[9.0f32, 12.0, 16.0, 33.0]));
            let m = font.metrics(size, LocationRef::default());
            out.push_str(&format!("upem{} asc{:08x} desc{:08x};", m.units_per_em, m.ascent.to_bits(), m.descent.to_bits()));
            let gm = font.glyph_metrics(size, LocationRef::default());
            let outlines = font.outline_glyphs();
            let hinter = HintingInstance::new(&outlines, size, LocationRef::default(), HintingOptions::default()).ok();
            let n = font.table_data(Tag::new(b"maxp")).map(|d| u16::from_be_bytes([d.as_bytes()[4], d.as_bytes()[5]])).unwrap_or(0) as u32;
            for g in 0..n.min(24) {
                let gid = GlyphId::new(g);
                out.push_str(&format!("g{g}adv{:?};", gm.advance_width(gid).map(|a| a.to_bits())));
                if let Some(og) = outlines.get(gid) {
                    let mut pen = TextPen::default();
                    let r = og.draw(DrawSettings::unhinted(size, LocationRef::default()), &mut pen);
                    out.push_str(&format!("u{}{};", r.is_ok(), pen.0));
                    let mut pen = TextPen::default();
                    let r = og.draw(DrawSettings::unhinted(Size::unscaled(), LocationRef::default()), &mut pen);
                    out.push_str(&format!("n{}{};", r.is_ok(), pen.0));
                    if let Some(h) = &hinter {
                        let mut pen = TextPen::default();
                        let r = og.draw(DrawSettings::hinted(h, false), &mut pen);
                        out.push_str(&format!("h{}{};", r.is_ok(), pen.0));
                    }
                }
            }
            out.into_bytes()
        }
    }
}

/// An application that keeps ONE read buffer: font after font is loaded into the same allocation (zero padded to
/// the buffer's length) and handed to an entry point. What comes out for a font must be what comes out for the same
/// bytes in a fresh allocation on a fresh thread, whatever was at that address before.
fn buffer_reuse(s: &mut Session, rng: &mut Rng, thorough: bool) {
    let fonts = test_fonts();
    let len = fonts.iter().map(|(_, d)| d.len()).max().unwrap_or(0) + 64;
    let n_jobs = if thorough { 600 } else { 90 };
    // jobs: (font, entry, seed); consecutive jobs use different fonts; subsetting twice as often as the rest
    let mut jobs: Vec<(usize, usize, u64)> = vec![];
    for _ in 0..n_jobs {
        let mut f = rng.below(fonts.len() as u64) as usize;
        if jobs.last().map_or(false, |j| j.0 == f) {
            f = (f + 1) % fonts.len();
        }
        let entry = *rng.pick(&[0usize, 0, 0, 1, 1, 2, 3]);
        jobs.push((f, entry, rng.next()));
    }
    let load = |buf: &mut Vec<u8>, f: usize| {
        let data = fonts[f].1;
        buf.clear();
        buf.extend_from_slice(data);
        buf.resize(len, 0);
    };
    // reference: fresh allocation, fresh thread
    let fresh: Vec<Vec<u8>> = jobs
        .iter()
        .map(|&(f, entry, seed)| {
            let mut own = Vec::new();
            load(&mut own, f);
            std::thread::spawn(move || {
                std::panic::set_hook(Box::new(|_| {}));
                entry_point(entry, seed, &own)
            })
            .join()
            .unwrap()
        })
        .collect();
    // (1) one thread, one buffer
    let mut buf: Vec<u8> = Vec::with_capacity(len);
    load(&mut buf, 0);
    let addr = buf.as_ptr() as usize;
    let mut moved = 0;
    let same_thread: Vec<Vec<u8>> = std::thread::scope(|sc| {
        sc.spawn(|| {
            std::panic::set_hook(Box::new(|_| {}));
            jobs.iter()
                .map(|&(f, entry, seed)| {
                    load(&mut buf, f);
                    if buf.as_ptr() as usize != addr {
                        moved += 1;
                    }
                    entry_point(entry, seed, &buf)
                })
                .collect()
        })
        .join()
        .unwrap()
    });
    // (2) the same buffer, every job on a thread of its own
    let other_threads: Vec<Vec<u8>> = jobs
        .iter()
        .map(|&(f, entry, seed)| {
            load(&mut buf, f);
            if buf.as_ptr() as usize != addr {
                moved += 1;
            }
            let view: &[u8] = &buf;
            std::thread::scope(|sc| {
                sc.spawn(move || {
                    std::panic::set_hook(Box::new(|_| {}));
                    entry_point(entry, seed, view)
                })
                .join()
                .unwrap()
            })
        })
        .collect();
    s.oracle("buffer-reuse:the-buffer-stayed-at-one-address", moved == 0, || format!("{n_jobs} loads into a Vec of capacity {len}"), || format!("{moved} loads moved the allocation"));
    for (j, &(f, entry, seed)) in jobs.iter().enumerate() {
        s.count(&format!("buffer-reuse:{}:{}", ENTRIES[entry].split('(').next().unwrap_or("").trim(), if fresh[j].starts_with(b"ERR:") || fresh[j].starts_with(b"PANIC:") { "err" } else { "bytes" }));
        let input = || {
            let prev = if j == 0 { "the same font".to_string() } else { format!("font-test-data {} (given to: {})", fonts[jobs[j - 1].0].0, ENTRIES[jobs[j - 1].1]) };
            format!(
                "one {len}-byte read buffer (fonts zero-padded to its length); loaded font-test-data {} and called: {} [seed {seed}]; before that the buffer held {prev}",
                fonts[f].0, ENTRIES[entry]
            )
        };
        s.oracle("same-bytes-at-a-reused-buffer-address-as-in-a-fresh-buffer(same-thread)", same_thread[j] == fresh[j], input, || first_diff(&fresh[j], &same_thread[j]));
        s.oracle("same-bytes-at-a-reused-buffer-address-as-in-a-fresh-buffer(one-thread-per-call)", other_threads[j] == fresh[j], input, || first_diff(&fresh[j], &other_threads[j]));
    }
}

// ---- "ties": inputs with 2..8 EXACTLY tied candidates wherever the compile path sorts / picks a maximum -----------

const TIE_FAMILIES: [&str; 6] = ["gvar-point-sets", "gpos-promotion", "gpos-split", "ivs-regions", "identical-content", "gsub-promotion"];

/// `n_sets` pair sets of `n_recs` records each (x-advance only) over the glyphs from `first`: ~ n_sets * n_recs * 4 bytes
fn tie_pair_pos(first: u16, n_sets: u16, n_recs: u16) -> write_fonts::tables::gpos::PairPos {
    use write_fonts::tables::gpos as wg;
    let glyphs = first..first + n_sets;
    let coverage: CoverageTable = glyphs.clone().map(GlyphId16::new).collect();
    let pair_sets = glyphs
        .map(|id| {
            let v = wg::ValueRecord::new().with_x_advance(id as i16);
            wg::PairSet::new((id..id + n_recs).map(|id2| wg::PairValueRecord::new(GlyphId16::new(id2), v.clone(), wg::ValueRecord::default())).collect())
        })
        .collect::<Vec<_>>();
    wg::PairPos::format_1(coverage, pair_sets)
}

/// Returns (description of the input, compiled bytes); with `build == false` only the description (same draws).
fn ties_family(seed: u64, rng: &mut Rng, build: bool) -> (String, Vec<u8>) {
    use write_fonts::tables::{gpos as wg, gsub as ws, layout as wl};
    let family = (seed % 100_000) as usize % TIE_FAMILIES.len();
    let name = TIE_FAMILIES[family];
    match family {
        // gvar: per glyph k disjoint point sets of equal size (equal packed size), each used by c tuples: every
        // candidate for the glyph's shared point numbers saves exactly the same number of bytes
        0 => {
            let axes = 3usize;
            let n_glyphs = rng.range(1, 4) as u32;
            let mut desc = format!("{name}: {axes} axes;");
            let mut vars = vec![GlyphVariations::new(GlyphId::new(0), vec![])];
            for g in 1..=n_glyphs {
                let k = rng.range(2, 8) as usize;
                let m = rng.range(1, 4) as usize;
                let n_pts = k * m + rng.range(1, 12) as usize;
                let c = rng.range(2, 3) as usize;
                let mut idx: Vec<usize> = (0..n_pts).collect();
                rng.shuffle(&mut idx);
                let sets: Vec<Vec<usize>> = (0..k).map(|i| { let mut v = idx[i * m..(i + 1) * m].to_vec(); v.sort(); v }).collect();
                // k*c tuples with distinct peaks, in grouped / interleaved / shuffled order
                let mut peaks: Vec<[i64; 3]> = vec![];
                for a in [-16384i64, -8192, 8192, 16384] {
                    for b in [-16384i64, -8192, 8192, 16384] {
                        for cc in [-16384i64, 8192] {
                            peaks.push([a, b, cc]);
                        }
                    }
                }
                rng.shuffle(&mut peaks);
                let mut uses: Vec<usize> = match rng.below(3) {
                    0 => (0..k).flat_map(|i| std::iter::repeat(i).take(c)).collect(),
                    _ => (0..c).flat_map(|_| 0..k).collect(),
                };
                let order = rng.below(3);
                if order == 2 {
                    rng.shuffle(&mut uses);
                }
                desc.push_str(&format!(" glyph {g}: {n_pts} points, {k} point sets {sets:?} used {c}x each in tuple order {uses:?};"));
                let deltas: Vec<GlyphDeltas> = uses
                    .iter()
                    .enumerate()
                    .map(|(t, &set)| {
                        let tents: Vec<Tent> = peaks[t].iter().map(|p| Tent::new(f2(*p), None)).collect();
                        let (dx, dy) = (rng.range(1, 60) as i16, rng.range(-60, -1) as i16);
                        let ds: Vec<GlyphDelta> = (0..n_pts)
                            .map(|i| if sets[set].contains(&i) { GlyphDelta::required(dx + i as i16, dy - i as i16) } else { GlyphDelta::optional(0, 0) })
                            .collect();
                        GlyphDeltas::new(tents, ds)
                    })
                    .collect();
                vars.push(GlyphVariations::new(GlyphId::new(g), deltas));
            }
            if !build {
                return (desc, vec![]);
            }
            let bytes = match Gvar::new(vars, axes as u16) {
                Ok(t) => res(dump_table(&t)),
                Err(e) => format!("ERR:{e:?}").into_bytes(),
            };
            (desc, bytes)
        }
        // GPOS / GSUB: k lookups of identical shape (same size, same subtable count => the same subtables-per-byte
        // ratio), together too big for 16-bit offsets: only some of them can stay non-extension lookups
        1 | 5 => {
            let (a, b) = if family == 1 { (rng.range(18, 22) as u16, rng.range(140, 165) as u16) } else { (rng.range(50, 70) as u16, rng.range(90, 110) as u16) };
            let size = if family == 1 { a as usize * b as usize * 4 } else { a as usize * b as usize * 2 };
            let k = (rng.range(2, 8) as usize).max(75_000usize.div_ceil(size)).min(9);
            let extra = rng.chance(1, 3);
            let desc = format!(
                "{name}: {k} lookups of identical shape ({}), glyph ranges starting at 1 + 300*i{}",
                if family == 1 { format!("one PairPosFormat1 subtable, {a} pair sets x {b} records, x-advance only") } else { format!("one AlternateSubst subtable, {a} alternate sets x {b} glyphs") },
                if extra { ", plus one small lookup of another shape at the end" } else { "" }
            );
            if !build {
                return (desc, vec![]);
            }
            if family == 1 {
                let mut lookups: Vec<wg::PositionLookup> =
                    (0..k as u16).map(|i| wg::PositionLookup::Pair(wl::Lookup::new(LookupFlag::empty(), vec![tie_pair_pos(1 + 300 * i, a, b)]))).collect();
                if extra {
                    lookups.push(wg::PositionLookup::Pair(wl::Lookup::new(LookupFlag::empty(), vec![tie_pair_pos(5000, 3, 7)])));
                }
                (desc, res(dump_table(&Gpos::new(ScriptList::default(), FeatureList::default(), LookupList::new(lookups)))))
            } else {
                let alt = |first: u16, a: u16, b: u16| {
                    let cov: CoverageTable = (first..first + a).map(GlyphId16::new).collect();
                    let sets = (first..first + a).map(|g| ws::AlternateSet::new((g + 1..g + 1 + b).map(GlyphId16::new).collect())).collect();
                    ws::AlternateSubstFormat1::new(cov, sets)
                };
                let mut lookups: Vec<SubstitutionLookup> =
                    (0..k as u16).map(|i| SubstitutionLookup::Alternate(wl::Lookup::new(LookupFlag::empty(), vec![alt(1 + 300 * i, a, b)]))).collect();
                if extra {
                    lookups.push(SubstitutionLookup::Alternate(wl::Lookup::new(LookupFlag::empty(), vec![alt(5000, 3, 7)])));
                }
                (desc, res(dump_table(&Gsub::new(ScriptList::default(), FeatureList::default(), LookupList::new(lookups)))))
            }
        }
        // GPOS: ONE lookup with k >= 2 subtables of identical size that each have to be split
        2 => {
            let k = *rng.pick(&[2usize, 2, 3]);
            let a = rng.range(105, 112) as u16;
            let small_first = rng.chance(1, 3);
            let desc = format!("{name}: one Pair lookup with {k} PairPosFormat1 subtables of {a} pair sets x 165 records each (> 64 KiB each), glyph ranges starting at 1 + 1000*i{}", if small_first { ", preceded by a small Pair lookup" } else { "" });
            if !build {
                return (desc, vec![]);
            }
            let subtables: Vec<wg::PairPos> = (0..k as u16).map(|i| tie_pair_pos(1 + 1000 * i, a, 165)).collect();
            let mut lookups = vec![];
            if small_first {
                lookups.push(wg::PositionLookup::Pair(wl::Lookup::new(LookupFlag::empty(), vec![tie_pair_pos(7000, 2, 5)])));
            }
            lookups.push(wg::PositionLookup::Pair(wl::Lookup::new(LookupFlag::empty(), subtables)));
            (desc, res(dump_table(&Gpos::new(ScriptList::default(), FeatureList::default(), LookupList::new(lookups)))))
        }
        // item variation store: k regions used equally often by delta sets of the same shape and magnitude
        3 => {
            let axes = 2usize;
            let k = rng.range(2, 8) as usize;
            let c = rng.range(1, 4) as usize;
            let pairs = rng.chance(1, 2);
            let mag = *rng.pick(&[5i64, 100, 300, 40_000]);
            let desc = format!("{name}: {axes} axes, {k} regions, each used by {c} delta sets{} with deltas of magnitude <= {mag}, insertion order shuffled", if pairs { " and by one two-region delta set with its neighbour" } else { "" });
            if !build {
                return (desc, vec![]);
            }
            let peaks = [16384i64, -16384, 8192, -8192, 4096, -4096, 12288, -12288];
            let regions: Vec<VariationRegion> = (0..k)
                .map(|i| {
                    VariationRegion::new(
                        (0..axes)
                            .map(|ax| {
                                let p = peaks[(i + ax * 3) % 8];
                                let (s0, e0) = if p > 0 { (0, 16384) } else { (-16384, 0) };
                                RegionAxisCoordinates::new(f2(s0), f2(p), f2(e0))
                            })
                            .collect(),
                    )
                })
                .collect();
            let mut sets: Vec<Vec<(VariationRegion, i32)>> = vec![];
            for i in 0..k {
                for j in 0..c {
                    sets.push(vec![(regions[i].clone(), (mag - j as i64 - 1) as i32)]);
                }
                if pairs {
                    sets.push(vec![(regions[i].clone(), mag as i32 - 1), (regions[(i + 1) % k].clone(), -(mag as i32) + 1)]);
                }
            }
            rng.shuffle(&mut sets);
            let mut b = VariationStoreBuilder::new(axes as u16);
            let ids: Vec<_> = sets.into_iter().map(|ds| b.add_deltas(ds)).collect();
            let (store, remap) = b.build();
            let mut out = res(dump_table(&store));
            for id in ids {
                match remap.get(id) {
                    Some(v) => {
                        out.extend_from_slice(&v.delta_set_outer_index.to_be_bytes());
                        out.extend_from_slice(&v.delta_set_inner_index.to_be_bytes());
                    }
                    None => out.extend_from_slice(b"none"),
                }
            }
            (desc, out)
        }
        // identical content: k lookups / features / coverage tables / name strings that are equal byte for byte
        _ => {
            let k = rng.range(2, 8) as usize;
            let n = rng.range(3, 60) as u16;
            let desc = format!("{name}: GSUB with {k} identical SingleSubst lookups ({n} glyphs, delta 7) + {k} lookups over the same coverage with other deltas, {k} features with the same lookup list, {k} scripts with the same LangSys; name table with {k} records sharing one string; ClassDef of {k} equal-sized classes");
            if !build {
                return (desc, vec![]);
            }
            let cov = || -> CoverageTable { (10..10 + n).map(GlyphId16::new).collect() };
            let mut lookups: Vec<SubstitutionLookup> = vec![];
            for _ in 0..k {
                lookups.push(SubstitutionLookup::Single(wl::Lookup::new(LookupFlag::empty(), vec![ws::SingleSubst::format_1(cov(), 7)])));
            }
            for i in 0..k {
                lookups.push(SubstitutionLookup::Single(wl::Lookup::new(LookupFlag::empty(), vec![ws::SingleSubst::format_1(cov(), 100 + i as i16)])));
            }
            let n_lookups = lookups.len() as u16;
            let tags = [b"aalt", b"calt", b"liga", b"ss01", b"ss02", b"ss03", b"ss04", b"ss05"];
            let features: Vec<wl::FeatureRecord> = (0..k).map(|i| wl::FeatureRecord::new(Tag::new(tags[i]), wl::Feature::new(None, (0..n_lookups).collect()))).collect();
            let stags = [b"DFLT", b"arab", b"cyrl", b"grek", b"hebr", b"latn", b"thai", b"zzzz"];
            let scripts: Vec<wl::ScriptRecord> =
                (0..k).map(|i| wl::ScriptRecord::new(Tag::new(stags[i]), wl::Script::new(Some(wl::LangSys::new((0..k as u16).collect())), vec![]))).collect();
            let gsub = Gsub::new(ScriptList::new(scripts), FeatureList::new(features), LookupList::new(lookups));
            let mut out = res(dump_table(&gsub));
            let records: Vec<write_fonts::tables::name::NameRecord> =
                (0..k).map(|i| write_fonts::tables::name::NameRecord::new(3, 1, 0x409, font_types::NameId::new(256 + i as u16), "the same string".to_string().into())).collect();
            out.extend(res(dump_table(&write_fonts::tables::name::Name::new(records))));
            let mut cd = ClassDefBuilder::new();
            let mut classes: Vec<IntSet<GlyphId16>> = (0..k as u16).map(|i| (100 + i * 10..100 + i * 10 + 3).map(GlyphId16::new).collect()).collect();
            rng.shuffle(&mut classes);
            for c in classes {
                cd.checked_add(c);
            }
            out.extend(res(dump_table(&cd.build())));
            (desc, out)
        }
    }
}

fn mock_graph(rng: &mut Rng, big: bool) -> Vec<u8> {
    let (specs, root) = mock_spec(rng, big);
    let mut g = VGraph::new(&specs, root);
    match g.dump() {
        Some(b) => b,
        None => b"PACKFAIL".to_vec(),
    }
}

// ---- layout ------------------------------------------------------------------------------------------

fn gid(x: u64) -> GlyphId16 {
    GlyphId16::new(x as u16)
}

fn value_record(rng: &mut Rng, pool: u64) -> ValueRecordBuilder {
    // few distinct records so that SinglePosBuilder groups by record / format
    let k = rng.below(pool);
    let mut v = ValueRecordBuilder::new();
    if k & 1 != 0 {
        v = v.with_x_advance((k as i16) * 7 - 20);
    }
    if k & 2 != 0 {
        v = v.with_y_placement((k as i16) * 3 - 9);
    }
    if k & 4 != 0 {
        v = v.with_x_placement(k as i16 + 1);
    }
    if k & 8 != 0 {
        v = v.with_y_advance(-(k as i16));
    }
    v
}

fn glyph_set(rng: &mut Rng, lo: u64, hi: u64, n: usize) -> Vec<GlyphId16> {
    let mut s = BTreeSet::new();
    for _ in 0..n {
        s.insert(rng.range(lo as i64, hi as i64) as u16);
    }
    s.into_iter().map(GlyphId16::new).collect()
}

fn gpos(rng: &mut Rng) -> Vec<u8> {
    let mut var_store = VariationStoreBuilder::new(2);
    let mut lookups: Vec<PositionLookup> = vec![];
    let mut notes = String::new();
    let n_lookups = rng.range(1, 6);
    let heavy = rng.chance(1, 2); // big enough to overflow 16-bit offsets: promotion / splitting paths
    for _ in 0..n_lookups {
        match rng.below(3) {
            0 => {
                let mut b = SinglePosBuilder::default();
                let n = if heavy { rng.range(200, 3000) } else { rng.range(1, 120) };
                let pool = *rng.pick(&[2u64, 5, 16]);
                for _ in 0..n {
                    let g = gid(rng.below(5000));
                    let v = value_record(rng, pool);
                    if b.can_add(g, &v) {
                        b.insert(g, v);
                    }
                }
                let lb = LookupBuilder::new_with_lookups(LookupFlag::empty(), None, vec![b]);
                lookups.push(PositionLookup::Single(lb.build(&mut var_store)));
            }
            1 => {
                let mut b = PairPosBuilder::default();
                let n = if heavy { rng.range(500, 6000) } else { rng.range(1, 200) };
                for _ in 0..n {
                    let a = gid(rng.below(600));
                    let c = gid(rng.below(600));
                    b.insert_pair(a, value_record(rng, 16), c, value_record(rng, 4));
                }
                // class pairs: disjoint classes in the first position (ClassDefBuilder is a HashSet of classes)
                let n_cls = rng.range(0, 12) as u64;
                let mut firsts = vec![];
                for k in 0..n_cls {
                    let sz = rng.range(1, 3) as usize; // many classes of equal size: tie-breaks by first glyph
                    firsts.push(glyph_set(rng, 1000 + k * 40, 1000 + k * 40 + 39, sz));
                }
                let mut seconds = vec![];
                for k in 0..rng.range(1, 6) as u64 {
                    let sz = rng.range(1, 3) as usize;
                    seconds.push(glyph_set(rng, 3000 + k * 40, 3000 + k * 40 + 39, sz));
                }
                let mut order: Vec<usize> = (0..firsts.len()).collect();
                rng.shuffle(&mut order);
                for i in order {
                    for s2 in &seconds {
                        if rng.chance(2, 3) {
                            b.insert_classes(
                                firsts[i].iter().copied().collect(),
                                value_record(rng, 16),
                                s2.iter().copied().collect(),
                                value_record(rng, 2),
                            );
                        }
                    }
                }
                let lb = LookupBuilder::new_with_lookups(LookupFlag::empty(), None, vec![b]);
                lookups.push(PositionLookup::Pair(lb.build(&mut var_store)));
            }
            _ => {
                let mut b = MarkToBaseBuilder::default();
                let n_classes = rng.range(1, 6);
                let names: Vec<String> = (0..n_classes).map(|i| format!("cls{}_{}", i, rng.below(1000))).collect();
                let n_marks = if heavy { rng.range(100, 1500) } else { rng.range(1, 60) };
                let mut used: BTreeSet<String> = BTreeSet::new();
                for m in 0..n_marks {
                    // sometimes the same glyph again (under another class: the PreviouslyAssignedClass error path)
                    let g = if rng.chance(1, 10) { 4000 + rng.below(m as u64 + 1) } else { 4000 + m as u64 };
                    let name = rng.pick(&names).clone();
                    let r = b.insert_mark(gid(g), &name, AnchorBuilder::new(rng.range(-50, 50) as i16, rng.range(-50, 50) as i16));
                    used.insert(name);
                    if let Err(e) = r {
                        // the error names the previous class (found by iterating the class HashMap)
                        notes.push_str(&format!("{e};"));
                    }
                }
                // only classes that exist may be used for bases (internal expect otherwise)
                let n_bases = if heavy { rng.range(100, 2500) } else { rng.range(1, 60) };
                for bi in 0..n_bases {
                    for name in &used {
                        if rng.chance(1, 2) {
                            b.insert_base(gid(100 + bi as u64), name, AnchorBuilder::new(rng.range(-500, 500) as i16, rng.range(0, 700) as i16));
                        }
                    }
                }
                let lb = LookupBuilder::new_with_lookups(LookupFlag::empty(), None, vec![b]);
                lookups.push(PositionLookup::MarkToBase(lb.build(&mut var_store)));
            }
        }
    }
    // the same lookups twice: shared subtables are deduplicated in the ObjectStore
    if rng.chance(1, 2) {
        let again = lookups.clone();
        lookups.extend(again);
    }
    let table = Gpos::new(ScriptList::default(), FeatureList::default(), LookupList::new(lookups));
    let mut out = res(dump_table(&table));
    out.extend_from_slice(notes.as_bytes());
    out
}

fn gsub(rng: &mut Rng) -> Vec<u8> {
    let mut var_store = VariationStoreBuilder::new(1);
    let mut lookups: Vec<SubstitutionLookup> = vec![];
    let heavy = rng.chance(1, 2);
    for _ in 0..rng.range(1, 8) {
        match rng.below(4) {
            0 => {
                let mut b = SingleSubBuilder::default();
                let n = if heavy { rng.range(500, 8000) } else { rng.range(1, 200) };
                let delta = rng.chance(1, 2);
                for _ in 0..n {
                    let t = rng.below(20000);
                    let r = if delta { t + 7 } else { rng.below(20000) };
                    if b.can_add(gid(t), gid(r)) {
                        b.insert(gid(t), gid(r));
                    }
                }
                let lb = LookupBuilder::new_with_lookups(LookupFlag::empty(), None, vec![b]);
                lookups.push(SubstitutionLookup::Single(lb.build(&mut var_store)));
            }
            1 => {
                let mut b = MultipleSubBuilder::default();
                let n = if heavy { rng.range(500, 6000) } else { rng.range(1, 100) };
                for _ in 0..n {
                    let t = gid(rng.below(9000));
                    let len = rng.range(1, 4) as usize;
                    // few distinct sequences: shared Sequence tables
                    let base = rng.below(12);
                    let repl: Vec<GlyphId16> = (0..len).map(|k| gid(base * 10 + k as u64)).collect();
                    if b.can_add(t, &repl) {
                        b.insert(t, repl);
                    }
                }
                let lb = LookupBuilder::new_with_lookups(LookupFlag::empty(), None, vec![b]);
                lookups.push(SubstitutionLookup::Multiple(lb.build(&mut var_store)));
            }
            2 => {
                let mut b = AlternateSubBuilder::default();
                let n = if heavy { rng.range(300, 4000) } else { rng.range(1, 100) };
                for _ in 0..n {
                    let t = gid(rng.below(9000));
                    let base = rng.below(8);
                    let alts: Vec<GlyphId16> = (0..rng.range(1, 5) as u64).map(|k| gid(base * 16 + k)).collect();
                    b.insert(t, alts);
                }
                let lb = LookupBuilder::new_with_lookups(LookupFlag::empty(), None, vec![b]);
                lookups.push(SubstitutionLookup::Alternate(lb.build(&mut var_store)));
            }
            _ => {
                let mut b = LigatureSubBuilder::default();
                let n = if heavy { rng.range(300, 5000) } else { rng.range(1, 100) };
                for _ in 0..n {
                    let len = rng.range(1, 4) as u64;
                    let first = rng.below(300);
                    let seq: Vec<GlyphId16> = (0..len).map(|k| gid(if k == 0 { first } else { rng.below(50) })).collect();
                    let r = gid(rng.below(9000));
                    if b.can_add(&seq, r) {
                        b.insert(seq, r);
                    }
                }
                let lb = LookupBuilder::new_with_lookups(LookupFlag::empty(), None, vec![b]);
                lookups.push(SubstitutionLookup::Ligature(lb.build(&mut var_store)));
            }
        }
    }
    if rng.chance(1, 2) {
        let again = lookups.clone();
        lookups.extend(again);
    }
    let table = Gsub::new(ScriptList::default(), FeatureList::default(), LookupList::new(lookups));
    res(dump_table(&table))
}

// ---- variations --------------------------------------------------------------------------------------

fn f2(x: i64) -> F2Dot14 {
    F2Dot14::from_bits(x as i16)
}

fn gvar(rng: &mut Rng) -> Vec<u8> {
    let axis_count = rng.range(1, 3) as usize;
    // small pool of peaks so that tuples are shared between glyphs; equal counts exercise the tie order
    let pool: Vec<Vec<i64>> = (0..rng.range(1, 6)).map(|_| (0..axis_count).map(|_| *rng.pick(&[-16384i64, -8192, 8192, 16384])).collect()).collect();
    let n_glyphs = rng.range(1, 24) as u32;
    let mut vars = vec![];
    let mut gids: Vec<u32> = (0..n_glyphs).collect();
    rng.shuffle(&mut gids);
    for g in gids {
        let n_pts = rng.range(4, 14) as usize;
        let n_tuples = rng.range(0, 4);
        let mut deltas = vec![];
        for _ in 0..n_tuples {
            let peaks = rng.pick(&pool).clone();
            let tents: Vec<Tent> = peaks
                .iter()
                .map(|p| {
                    if rng.chance(1, 5) && *p > 0 {
                        Tent::new(f2(*p), Some((f2(0), f2(16384))))
                    } else {
                        Tent::new(f2(*p), None)
                    }
                })
                .collect();
            let sparse = rng.chance(1, 2);
            let ds: Vec<GlyphDelta> = (0..n_pts)
                .map(|i| {
                    let req = !sparse || i % 3 == 0;
                    GlyphDelta::new(rng.range(-40, 40) as i16, rng.range(-40, 40) as i16, req)
                })
                .collect();
            deltas.push(GlyphDeltas::new(tents, ds));
        }
        vars.push(GlyphVariations::new(GlyphId::new(g), deltas));
    }
    match Gvar::new(vars, axis_count as u16) {
        Ok(t) => res(dump_table(&t)),
        Err(e) => format!("ERR:{e:?}").into_bytes(),
    }
}

fn region(rng: &mut Rng, axes: usize, pool: u64) -> VariationRegion {
    let k = rng.below(pool);
    let coords = (0..axes)
        .map(|a| {
            let peak = [16384i64, -16384, 8192, -8192, 4096, 12288][((k + a as u64) % 6) as usize];
            let (s, e) = if peak > 0 { (0, 16384) } else { (-16384, 0) };
            RegionAxisCoordinates::new(f2(s), f2(peak + (k / 6) as i64 % 3), f2(e))
        })
        .collect();
    VariationRegion::new(coords)
}

fn ivs(rng: &mut Rng) -> Vec<u8> {
    let axes = rng.range(1, 3) as usize;
    let implicit = rng.chance(1, 4);
    let mut b = if implicit { VariationStoreBuilder::new_with_implicit_indices(axes as u16) } else { VariationStoreBuilder::new(axes as u16) };
    let pool = *rng.pick(&[2u64, 6, 18]);
    let n = rng.range(1, 120);
    let mut ids = vec![];
    for _ in 0..n {
        let k = rng.range(0, 4);
        let mut used = BTreeSet::new();
        let mut ds = vec![];
        for _ in 0..k {
            let r = region(rng, axes, pool);
            let key = format!("{r:?}");
            if used.insert(key) {
                let mag = *rng.pick(&[3i64, 100, 300, 40000]);
                ds.push((r, rng.range(-mag, mag) as i32));
            }
        }
        ids.push(b.add_deltas(ds));
    }
    let (store, remap) = b.build();
    let mut out = res(dump_table(&store));
    for id in ids {
        match remap.get(id) {
            Some(v) => {
                out.extend_from_slice(&v.delta_set_outer_index.to_be_bytes());
                out.extend_from_slice(&v.delta_set_inner_index.to_be_bytes());
            }
            None => out.extend_from_slice(b"none"),
        }
    }
    out
}

fn classdef(rng: &mut Rng) -> Vec<u8> {
    let mut b = if rng.chance(1, 2) { ClassDefBuilder::new() } else { ClassDefBuilder::new_using_class_0() };
    let n = rng.range(0, 40);
    // many classes of the same size (ties in the size key; first-glyph breaks them) incl. an empty class
    let mut classes: Vec<IntSet<GlyphId16>> = vec![];
    for k in 0..n {
        let sz = *rng.pick(&[0usize, 1, 1, 2, 2, 3, 7]);
        let spill = if rng.chance(1, 8) { 30 } else { 0 };
        let gs = glyph_set(rng, k as u64 * 20, k as u64 * 20 + 19 + spill, sz);
        classes.push(gs.into_iter().collect());
    }
    rng.shuffle(&mut classes);
    for c in classes {
        b.checked_add(c);
    }
    let (cd, mapping) = b.build_with_mapping();
    let mut out = res(dump_table(&cd));
    let mut m: Vec<(Vec<u16>, u16)> = mapping.iter().map(|(k, v)| (k.iter().map(|g| g.to_u16()).collect(), *v)).collect();
    m.sort();
    out.extend_from_slice(format!("{m:?}").as_bytes());
    // and a coverage table collected from a hash-ordered source
    let cov: CoverageTable = mapping.keys().flat_map(|k| k.iter()).collect();
    out.extend(res(dump_table(&cov)));
    out
}

fn iup(rng: &mut Rng) -> Vec<u8> {
    let n_contours = rng.range(1, 4);
    let mut ends = vec![];
    let mut total = 0usize;
    for _ in 0..n_contours {
        total += rng.range(1, 14) as usize;
        ends.push(total - 1);
    }
    let n = total + 4;
    let mut coords = vec![];
    let mut deltas = vec![];
    let flat = rng.chance(1, 3);
    for i in 0..n {
        let x = rng.range(-300, 300) as f64;
        let y = if flat { 0.0 } else { rng.range(-300, 300) as f64 };
        coords.push(kurbo::Point::new(x, y));
        let d = if rng.chance(1, 3) { (0.0, 0.0) } else { (rng.range(-20, 20) as f64, rng.range(-3, 3) as f64 + (i % 2) as f64) };
        deltas.push(kurbo::Vec2::new(d.0, d.1));
    }
    let tol = *rng.pick(&[0.0f64, 0.5, 1.0, 4.0]);
    match iup_delta_optimize(deltas, coords, tol, &ends) {
        Ok(v) => {
            let mut out = vec![];
            for d in v {
                out.extend_from_slice(&d.x.to_be_bytes());
                out.extend_from_slice(&d.y.to_be_bytes());
                out.push(d.required as u8);
            }
            out
        }
        Err(e) => format!("ERR:{e:?}").into_bytes(),
    }
}

// ---- whole fonts ----------------------------------------------------------------------------------------

fn font(rng: &mut Rng) -> Vec<u8> {
    let mut fb = FontBuilder::new();
    let n_raw = rng.range(0, 8);
    for _ in 0..n_raw {
        let tag = Tag::new(&[b'a' + rng.below(26) as u8, b'A' + rng.below(26) as u8, b'0' + rng.below(10) as u8, b' ']);
        let len = rng.range(0, 300) as usize;
        fb.add_raw(tag, rng.bytes(len));
    }
    // post v2 (HashMap of standard names inside)
    let names_pool = [".notdef", "space", "A", "B", "a.alt", "uni0041", "zero", "glyph00007", "A", "foo_bar", "Omega"];
    let names: Vec<&str> = (0..rng.range(1, 40)).map(|_| *rng.pick(&names_pool)).collect();
    let post = write_fonts::tables::post::Post::new_v2(names.iter().copied());
    let _ = fb.add_table(&post);
    // cmap
    let n_map = rng.range(1, 200);
    let mut maps = BTreeSet::new();
    for _ in 0..n_map {
        let cp = if rng.chance(1, 6) { rng.range(0x10000, 0x10400) } else { rng.range(0x20, 0x3000) } as u32;
        if let Some(c) = char::from_u32(cp) {
            maps.insert(c);
        }
    }
    let mappings: Vec<(char, GlyphId)> = maps.into_iter().map(|c| (c, GlyphId::new(rng.below(500) as u32))).collect();
    if let Ok(cmap) = write_fonts::tables::cmap::Cmap::from_mappings(mappings) {
        let _ = fb.add_table(&cmap);
    }
    // a small layout table and a gvar so that several packed graphs go through one build
    fb.add_raw(Tag::new(b"GPOS"), gpos(&mut Rng::new(rng.next() | 1)));
    if rng.chance(1, 2) {
        fb.add_raw(Tag::new(b"gvar"), gvar(&mut Rng::new(rng.next())));
    }
    fb.build()
}

fn test_fonts() -> Vec<(&'static str, &'static [u8])> {
    use font_test_data as t;
    vec![
        ("SIMPLE_GLYF", t::SIMPLE_GLYF),
        ("VAZIRMATN_VAR", t::VAZIRMATN_VAR),
        ("CMAP12_FONT1", t::CMAP12_FONT1),
        ("CMAP14_FONT1", t::CMAP14_FONT1),
        ("GLYF_COMPONENTS", t::GLYF_COMPONENTS),
        ("COLRV0V1", t::COLRV0V1),
        ("COLRV0V1_VARIABLE", t::COLRV0V1_VARIABLE),
        ("MATERIAL_SYMBOLS_SUBSET", t::MATERIAL_SYMBOLS_SUBSET),
        ("NOTOSERIF_AUTOHINT_SHAPING", t::NOTOSERIF_AUTOHINT_SHAPING),
        ("TINOS_SUBSET", t::TINOS_SUBSET),
        ("CVAR", t::CVAR),
        ("VORG", t::VORG),
        ("TTHINT_SUBSET", t::TTHINT_SUBSET),
        ("INTERPOLATE_THIS", t::INTERPOLATE_THIS),
    ]
}

fn subset(rng: &mut Rng) -> Vec<u8> {
    use klippa::{subset_font, Plan, SubsetFlags};
    let fonts = test_fonts();
    let (_name, data) = fonts[rng.below(fonts.len() as u64) as usize];
    let font = match FontRef::new(data) {
        Ok(f) => f,
        Err(_) => return b"ERR:open".to_vec(),
    };
    if font.table_data(Tag::new(b"cmap")).is_none() {
        return b"ERR:nocmap".to_vec();
    }
    let num = font.table_data(Tag::new(b"maxp")).map(|d| u16::from_be_bytes([d.as_bytes()[4], d.as_bytes()[5]])).unwrap_or(1) as u64;
    let mut gids = IntSet::<GlyphId>::empty();
    let mut unicodes = IntSet::<u32>::empty();
    for _ in 0..rng.range(0, 12) {
        gids.insert(GlyphId::new(rng.below(num.max(1)) as u32));
    }
    for _ in 0..rng.range(0, 30) {
        unicodes.insert(match rng.below(4) {
            0 => rng.range(0x20, 0x7e) as u32,
            1 => rng.range(0x600, 0x6ff) as u32,
            2 => rng.range(0xe000, 0xf8ff) as u32,
            _ => rng.range(0x20, 0x2ffff) as u32,
        });
    }
    let flag_bits = [0u16, 0x0001, 0x0002, 0x0010, 0x0080, 0x0040, 0x0100, 0x0008];
    let mut flags = 0u16;
    for _ in 0..rng.below(3) {
        flags |= *rng.pick(&flag_bits);
    }
    let drop_tables = IntSet::<Tag>::empty();
    let mut layout_scripts = IntSet::<Tag>::empty();
    layout_scripts.invert();
    let mut layout_features = IntSet::<Tag>::empty();
    layout_features.extend(klippa::DEFAULT_LAYOUT_FEATURES.iter().copied());
    let mut name_ids = IntSet::<font_types::NameId>::empty();
    name_ids.insert_range(font_types::NameId::from(0)..=font_types::NameId::from(6));
    let mut name_languages = IntSet::<u16>::empty();
    name_languages.insert(0x0409);
    let plan = Plan::new(&gids, &unicodes, &font, SubsetFlags::from(flags), &drop_tables, &layout_scripts, &layout_features, &name_ids, &name_languages);
    match subset_font(&font, &plan) {
        Ok(b) => b,
        Err(e) => format!("ERR:{e:?}").into_bytes(),
    }
}

// ------------------------------------------------------------------------------------------------
// child process mode:  --child <seed> <tier> [dump <index>]

fn child_main(args: &[String]) {
    std::panic::set_hook(Box::new(|_| {}));
    let seed: u64 = args[0].parse().unwrap();
    let thorough = args[1] == "thorough";
    let rs = recipes(seed, thorough);
    if args.len() >= 4 && args[2] == "dump" {
        let i: usize = args[3].parse().unwrap();
        println!("{}", hex(&compile(&rs[i])));
        return;
    }
    // a different amount of unrelated history in every child
    let burn = (std::process::id() as u64 % 977) * 13;
    for _ in 0..burn {
        hooks::next_raw_id();
    }
    // "u32": advance the 64-bit counter to just below 2^32, so that the ids of the compilations straddle the
    // boundary (any truncation of ids to 32 bits would reorder them)
    if args.len() >= 3 && args[2] == "u32" {
        let target = (1u64 << 32) - 40;
        while hooks::next_raw_id() < target {}
    }
    // children given "rev" compile in reverse order (different id history per value)
    let rev = args.len() >= 3 && args[2] == "rev";
    let order: Vec<usize> = if rev { (0..rs.len()).rev().collect() } else { (0..rs.len()).collect() };
    let mut out = vec![String::new(); rs.len()];
    for i in order {
        out[i] = sig(&compile(&rs[i]));
    }
    for (i, s) in out.iter().enumerate() {
        println!("{i} {s}");
    }
}

// ------------------------------------------------------------------------------------------------

fn obj_token(id: u64, bytes: &[u8], links: &[(u32, u8, u64, u32)]) -> String {
    let l = if links.is_empty() {
        "-".to_string()
    } else {
        links.iter().map(|(p, w, t, a)| format!("{p}.{w}.{t}.{a}")).collect::<Vec<_>>().join(",")
    };
    format!("{id}:{}:{l}", hex(bytes))
}

fn graph_cases(s: &mut Session, rng: &mut Rng, g: &mut VGraph, tag: &str) {
    let objs = g.objects();
    if objs.iter().map(|o| o.bytes.len()).sum::<usize>() > 6000 {
        s.count("graph-case:skipped-large");
        return;
    }
    let root = g.root();
    // the "hash map order": an arbitrary permutation of the entries
    let mut toks: Vec<String> = objs.iter().map(|o| obj_token(o.id, &o.bytes, &o.links)).collect();
    rng.shuffle(&mut toks);
    let ids: Vec<u64> = objs.iter().map(|o| o.id).collect();
    s.case("fromstore", format!("fromstore {}", toks.join(" ")), join(&ids));
    let sorted = catch(std::panic::AssertUnwindSafe(|| g.sort_kahn()));
    match sorted {
        Err(_) => {
            s.count(&format!("kahn:{tag}:panic"));
            s.case("kahn", format!("kahn {root} {}", toks.join(" ")), "panic".into());
        }
        Ok(()) => {
            s.count(&format!("kahn:{tag}:ok"));
            s.case("kahn", format!("kahn {root} {}", toks.join(" ")), join(&g.order()));
            if !g.has_overflows() {
                // serialize() panics on links whose placeholder does not fit: only well-formed graphs reach it
                if let Ok(bytes) = catch(std::panic::AssertUnwindSafe(|| g.serialize())) {
                    s.count(&format!("pack:{tag}"));
                    s.case("pack", format!("pack {root} {}", toks.join(" ")), hex(&bytes));
                }
            } else {
                s.count(&format!("kahn:{tag}:overflow"));
            }
        }
    }
}

/// The store `TableWriter` builds is a function of (the value, the ids drawn in order): derive the id-free template
/// from one compilation of `table`, compile it AGAIN while another thread draws ids concurrently, and let the model
/// instantiate the template with the second run's ids.
fn inst_case<T: write_fonts::FontWrite>(s: &mut Session, table: &T, first: &VGraph) {
    let objs1 = first.objects();
    let rank: HashMap<u64, usize> = objs1.iter().enumerate().map(|(i, o)| (o.id, i)).collect();
    let tmpl: Vec<String> = objs1
        .iter()
        .map(|o| {
            let links: Vec<(u32, u8, u64, u32)> = o.links.iter().map(|(p, w, t, a)| (*p, *w, rank[t] as u64, *a)).collect();
            obj_token(0, &o.bytes, &links)
        })
        .collect();
    let stop = Arc::new(std::sync::atomic::AtomicBool::new(false));
    let stop2 = stop.clone();
    let started = Arc::new(std::sync::atomic::AtomicBool::new(false));
    let started2 = started.clone();
    let burner = std::thread::spawn(move || {
        let mut n = 0u64;
        while !stop2.load(std::sync::atomic::Ordering::Relaxed) && n < 2_000_000 {
            hooks::next_raw_id();
            started2.store(true, std::sync::atomic::Ordering::Relaxed);
            n += 1;
        }
        n
    });
    while !started.load(std::sync::atomic::Ordering::Relaxed) {
        std::hint::spin_loop();
    }
    let second = VGraph::from_table(table);
    stop.store(true, std::sync::atomic::Ordering::Relaxed);
    let burned = burner.join().unwrap();
    let objs2 = second.objects();
    let ids2: Vec<u64> = objs2.iter().map(|o| o.id).collect();
    let gaps = ids2.windows(2).filter(|w| w[1] != w[0] + 1).count();
    s.count(if gaps > 0 { "inst:ids-interleaved-with-other-thread" } else { "inst:ids-contiguous" });
    let _ = burned;
    let resp = objs2.iter().map(|o| obj_token(o.id, &o.bytes, &o.links)).collect::<Vec<_>>().join(" ");
    let ids_s = ids2.iter().map(|x| x.to_string()).collect::<Vec<_>>().join(",");
    s.case("inst", format!("inst {ids_s} {}", tmpl.join(" ")), resp);
}

fn run(cfg: &Config, s: &mut Session) {
    let thorough = cfg.thorough();
    let mut rng = Rng::new(cfg.seed ^ 0xC07);

    // ---- correspondence 1: the real counter under real interleavings --------------------------------
    let n_sched = if thorough { 400 } else { 60 };
    for k in 0..n_sched {
        let n_threads = rng.range(1, 8) as usize;
        let draws: Vec<usize> = (0..n_threads).map(|_| rng.range(0, 40) as usize).collect();
        let barrier = Arc::new(Barrier::new(n_threads));
        let handles: Vec<_> = draws
            .iter()
            .map(|&n| {
                let b = barrier.clone();
                std::thread::spawn(move || {
                    b.wait();
                    let mut got = Vec::with_capacity(n);
                    for i in 0..n {
                        got.push(hooks::next_raw_id());
                        if i % 7 == 3 {
                            std::thread::yield_now();
                        }
                    }
                    got
                })
            })
            .collect();
        let got: Vec<Vec<u64>> = handles.into_iter().map(|h| h.join().unwrap()).collect();
        let mut all: Vec<(u64, usize)> = got.iter().enumerate().flat_map(|(t, v)| v.iter().map(move |id| (*id, t))).collect();
        all.sort();
        if all.is_empty() {
            continue;
        }
        let c0 = all[0].0;
        let contiguous = all.iter().enumerate().all(|(i, (id, _))| *id == c0 + i as u64);
        s.oracle("counter-ids-unique-and-contiguous", contiguous, || format!("round {k} draws={draws:?}"), || format!("{all:?}"));
        let sched: Vec<usize> = all.iter().map(|(_, t)| *t).collect();
        let switches = sched.windows(2).filter(|w| w[0] != w[1]).count();
        s.count(if switches + 1 > n_threads { "sched:interleaved" } else { "sched:sequential" });
        let present: BTreeSet<usize> = sched.iter().copied().collect();
        let resp = present.iter().map(|t| format!("{t}={}", got[*t].iter().map(|x| x.to_string()).collect::<Vec<_>>().join(","))).collect::<Vec<_>>().join(" ");
        s.case("sched", format!("sched {c0} {}", join(&sched)), resp);
    }

    // ---- correspondence 2: from_obj_store / sort_kahn / serialize -----------------------------------
    let n_graphs = if thorough { 3000 } else { 500 };
    for _ in 0..n_graphs {
        let (mut specs, root) = mock_spec(&mut rng, false);
        // occasionally an unreachable parent (kahn's final check panics) — keep sizes tiny
        if rng.chance(1, 10) && specs.len() >= 2 {
            let t = rng.range(1, specs.len() as i64 - 1) as usize;
            specs.push(NodeSpec { bytes: vec![0xff, 0xff, 1], links: vec![LinkSpec { pos: 0, width: 2, target: t, adjustment: 0 }], burn_ids: 0 });
        }
        let mut g = VGraph::new(&specs, root);
        graph_cases(s, &mut rng, &mut g, "mock");
    }
    // graphs of real tables (ids in compile order, deduplicated store)
    let n_real = if thorough { 300 } else { 60 };
    for i in 0..n_real {
        let mut r = Rng::new(cfg.seed.wrapping_mul(77).wrapping_add(i));
        let mut b = ClassDefBuilder::new();
        for k in 0..r.range(1, 6) {
            let sz = r.range(1, 4) as usize;
            b.checked_add(glyph_set(&mut r, k as u64 * 20, k as u64 * 20 + 19, sz).into_iter().collect());
        }
        let mut sp = SinglePosBuilder::default();
        for _ in 0..r.range(1, 30) {
            let g = gid(r.below(300));
            let v = value_record(&mut r, 5);
            if sp.can_add(g, &v) {
                sp.insert(g, v);
            }
        }
        let mut vs = VariationStoreBuilder::new(1);
        let lb = LookupBuilder::new_with_lookups(LookupFlag::empty(), None, vec![sp]);
        let lookup = PositionLookup::Single(lb.build(&mut vs));
        let table = Gpos::new(ScriptList::default(), FeatureList::default(), LookupList::new(vec![lookup.clone(), lookup]));
        let mut g = VGraph::from_table(&table);
        inst_case(s, &table, &g);
        graph_cases(s, &mut rng, &mut g, "gpos");
        let cd = b.build();
        let mut g2 = VGraph::from_table(&cd);
        inst_case(s, &cd, &g2);
        graph_cases(s, &mut rng, &mut g2, "classdef");
    }

    // ---- correspondence 3: std semantics of the root renaming loop under real hash orders -----------
    for _ in 0..(if thorough { 2000 } else { 300 }) {
        let n_roots = rng.range(0, 8);
        let mut roots: BTreeSet<u64> = (0..n_roots).map(|_| rng.below(40)).collect();
        let mut id_map: HashMap<u64, u64> = HashMap::new();
        let mut fresh = 1000;
        for _ in 0..rng.range(0, 10) {
            id_map.entry(rng.below(40)).or_insert_with(|| {
                fresh += rng.range(1, 5) as u64;
                fresh
            });
        }
        let before: Vec<u64> = roots.iter().copied().collect();
        let order: Vec<(u64, u64)> = id_map.iter().map(|(a, b)| (*a, *b)).collect();
        for (old, new) in id_map {
            if roots.remove(&old) {
                roots.insert(new);
            }
        }
        let after: Vec<u64> = roots.into_iter().collect();
        let rs = if before.is_empty() { "-".to_string() } else { before.iter().map(|x| x.to_string()).collect::<Vec<_>>().join(",") };
        let ps = order.iter().map(|(a, b)| format!("{a}:{b}")).collect::<Vec<_>>().join(" ");
        s.case("roots", format!("roots {rs} {ps}").trim_end().to_string(), join(&after));
    }

    // ---- the differential determinism oracle ---------------------------------------------------------
    let rs = recipes(cfg.seed, thorough);
    let t0 = std::time::Instant::now();
    let base: Vec<Vec<u8>> = rs.iter().map(compile).collect();
    s.notes.push(format!("baseline: {} recipes compiled in {:.1}s, {} bytes", rs.len(), t0.elapsed().as_secs_f64(), base.iter().map(|b| b.len()).sum::<usize>()));
    for (r, b) in rs.iter().zip(&base) {
        let outcome = if b.starts_with(b"PANIC:") {
            "panic"
        } else if b.starts_with(b"ERR:") {
            "err"
        } else if b.starts_with(b"PACKFAIL") {
            "packfail"
        } else {
            "bytes"
        };
        s.count(&format!("recipe:{}:{}", r.kind, outcome));
        if r.kind == "spacefam" {
            let _ = compile(r);
            let (objs, specs, spaces) = SPACEFAM_STATS.with(|c| c.get());
            s.count(&format!("spacefam:spaces-assigned={}", spaces.saturating_sub(2).min(5)));
            s.count(&format!("spacefam:objects-duplicated={}", match objs.saturating_sub(specs) { 0 => "0", 1 => "1", 2..=4 => "2-4", _ => "5+" }));
        }
        if r.kind == "tiefam" {
            let _ = compile(r);
            let sh = TIEFAM_SHAPE.with(|c| c.get());
            s.count(&format!("tiefam:roots-duplicated={}", sh.dup_roots));
            s.count(&format!(
                "tiefam:shape={}",
                match (sh.tied, sh.unequal_paths, sh.between) {
                    (false, _, _) => "no-tie",
                    (true, false, _) => "tie,equal-paths",
                    (true, true, false) => "tie,unequal-paths",
                    (true, true, true) => "tie,unequal-paths,in-between-object",
                }
            ));
        }
    }
    let base_sig: Vec<String> = base.iter().map(|b| sig(b)).collect();
    for (r, b) in rs.iter().zip(&base).filter(|(r, _)| r.kind == "ties") {
        let fam = TIE_FAMILIES[(r.seed % 100_000) as usize % TIE_FAMILIES.len()];
        s.count(&format!("ties:{fam}:{}", if b.starts_with(b"ERR:") || b.starts_with(b"PANIC:") { "err" } else if b.len() > 65535 { "bytes>64K" } else { "bytes" }));
    }
    for r in rs.iter().filter(|r| r.kind == "dates") {
        let p = dates_plan(r.seed, &mut Rng::new(r.seed));
        s.count(&format!(
            "dates:created={},modified={}{}",
            match p.created { 0 => "0", 1 => "1", _ => "date" },
            match p.modified { 0 => "0", 1 => "1", m if m < p.created => "<created", _ => "date" },
            if p.subset_of.is_some() { ",subset" } else { ",built" }
        ));
    }

    // (e) wall clock: everything that ends in FontBuilder::build again, more than a second later (one pause per run)
    std::thread::sleep(std::time::Duration::from_millis(1150));
    for (i, r) in rs.iter().enumerate() {
        if matches!(r.kind, "dates" | "font" | "subset") {
            let later = compile(r);
            s.oracle("same-bytes-after-a-1.1s-pause", later == base[i], || r.show(), || first_diff(&base[i], &later));
        }
    }

    // (f) different fonts at the same buffer address
    buffer_reuse(s, &mut rng, thorough);

    // (a) twice in a row (right after one another, and after everything else has been compiled in between)
    for (i, r) in rs.iter().enumerate() {
        let again = compile(r);
        let again2 = compile(r);
        s.oracle("same-bytes-twice-in-a-row", again == again2, || r.show(), || first_diff(&again, &again2));
        s.oracle("same-bytes-after-unrelated-compilations", again == base[i], || r.show(), || first_diff(&base[i], &again));
    }

    // (c) explicit history: burn the process-wide counter by varying amounts between recompilations
    let burns: &[u64] = if thorough { &[1, 7, 1000, 65_535, 1_000_003, 16_777_216] } else { &[1, 1000, 65_537, 1_000_003] };
    for (bi, &burn) in burns.iter().enumerate() {
        for _ in 0..burn {
            hooks::next_raw_id();
        }
        for (i, r) in rs.iter().enumerate() {
            if thorough || i % burns.len() == bi {
                let again = compile(r);
                s.oracle("same-bytes-after-burning-the-id-counter", again == base[i], || format!("{} burn={burn}", r.show()), || first_diff(&base[i], &again));
            }
        }
    }
    s.notes.push(format!("id counter after history runs: {}", hooks::next_raw_id()));

    // (b) 16 threads
    let n_threads = 16;
    let rs_arc = Arc::new(rs.clone());
    // same value on all threads at once
    let same_idx: Vec<usize> = (0..rs.len()).filter(|i| thorough || i % 3 == 0).collect();
    let same_idx = Arc::new(same_idx);
    let barrier = Arc::new(Barrier::new(n_threads));
    let handles: Vec<_> = (0..n_threads)
        .map(|_| {
            let rs = rs_arc.clone();
            let idx = same_idx.clone();
            let b = barrier.clone();
            std::thread::spawn(move || {
                std::panic::set_hook(Box::new(|_| {}));
                let mut out = vec![];
                for &i in idx.iter() {
                    b.wait();
                    out.push(compile(&rs[i]));
                }
                out
            })
        })
        .collect();
    let results: Vec<Vec<Vec<u8>>> = handles.into_iter().map(|h| h.join().unwrap()).collect();
    for (t, outs) in results.iter().enumerate() {
        for (k, &i) in same_idx.iter().enumerate() {
            s.oracle("same-bytes-on-16-threads-same-value", outs[k] == base[i], || format!("{} thread={t}", rs[i].show()), || first_diff(&base[i], &outs[k]));
        }
    }
    // every thread a different value at any time
    let handles: Vec<_> = (0..n_threads)
        .map(|t| {
            let rs = rs_arc.clone();
            std::thread::spawn(move || {
                let n = rs.len();
                let mut out = vec![];
                for k in 0..n {
                    let i = (k + t * n / 16) % n;
                    if i % 16 == t || k % 4 == 0 {
                        out.push((i, compile(&rs[i])));
                    }
                }
                out
            })
        })
        .collect();
    for (t, h) in handles.into_iter().enumerate() {
        for (i, b) in h.join().unwrap() {
            s.oracle("same-bytes-on-16-threads-different-values", b == base[i], || format!("{} thread={t}", rs[i].show()), || first_diff(&base[i], &b));
        }
    }

    // (d) fresh child processes: different RandomState seeds, different id history
    let n_children = if thorough { 32 } else { 8 };
    let exe = std::env::current_exe().expect("current_exe");
    let mut kids = vec![];
    for c in 0..=n_children {
        let mut cmd = std::process::Command::new(&exe);
        cmd.arg("--child").arg(cfg.seed.to_string()).arg(&cfg.tier);
        if c == n_children {
            cmd.arg("u32"); // one extra child whose ids straddle 2^32 (about 45 s of fetch_add, in parallel)
        } else if c % 2 == 1 {
            cmd.arg("rev");
        }
        cmd.stdout(std::process::Stdio::piped()).stderr(std::process::Stdio::null());
        kids.push((c, cmd.spawn().expect("spawn child")));
    }
    for (c, kid) in kids {
        let out = kid.wait_with_output().expect("child output");
        let text = String::from_utf8_lossy(&out.stdout);
        let lines: Vec<&str> = text.lines().collect();
        s.oracle("child-process-completed", out.status.success() && lines.len() == rs.len(), || format!("child {c}"), || format!("status={:?} lines={}", out.status.code(), lines.len()));
        for line in lines {
            let mut it = line.split(' ');
            let (Some(i), Some(sg)) = (it.next().and_then(|x| x.parse::<usize>().ok()), it.next()) else { continue };
            if i >= rs.len() {
                continue;
            }
            let ok = sg == base_sig[i];
            s.oracle(
                "same-bytes-in-fresh-process",
                ok,
                || format!("{} child={c}", rs[i].show()),
                || {
                    // fetch the bytes from further fresh processes until one differs (each has its own hash seed)
                    for _ in 0..6 {
                        if let Ok(o) = std::process::Command::new(&exe).arg("--child").arg(cfg.seed.to_string()).arg(&cfg.tier).arg("dump").arg(i.to_string()).output() {
                            let other = unhex(String::from_utf8_lossy(&o.stdout).trim());
                            if other != base[i] {
                                return first_diff(&base[i], &other);
                            }
                        }
                    }
                    format!("signature {sg} vs {} (difference not reproduced in 6 further processes)", base_sig[i])
                },
            );
        }
    }
}
