//! C12 — drawing is well-formed and independent of buffers, history and threads.
//!
//! Correspondence (real code vs Lean model through `drv_c12`):
//!   tp          `outline::path::to_path` on random point/flag/contour arrays (hook `points_to_path`),
//!               coordinate types F26Dot6 / Fixed / i32 (model `fixedCoord`) and f32 (model `exactCoord`)
//!   carve.ft/hb `FreeTypeOutlineMemory::new` / `HarfBuzzOutlineMemory::new` on random metric records,
//!               base address offsets 0..15 and buffer lengths around the advertised size
//!   carve.size  `Outline::required_buffer_size` (random records; real glyphs: `draw_memory_size`)
//!   eff         `LocationRef::effective_coords` (observed through `HintingInstance::location`)
//! Model-independent oracles on the public API (corpus fonts + every glyph/size/location/hinting mix):
//!   grammar, finiteness, draw twice, caller memory of the advertised size at misaligned bases,
//!   None vs all-zero location, fresh vs reused HintingInstance, instance state untouched by draws,
//!   draw order, concurrent draws through one shared instance.
use fv_harness::common::*;
use read_fonts::{
    tables::glyf::PointFlags,
    types::{F26Dot6, F2Dot14, Fixed, GlyphId, Point},
    FontRef, TableProvider,
};
use skrifa::{
    instance::{Location, LocationRef, Size},
    outline::{
        verif_hooks::{self, OutlineCounts},
        DrawError, DrawSettings, Engine, HintingInstance, HintingOptions, OutlineGlyph,
        OutlineGlyphCollection, OutlinePen, SmoothMode, Target,
    },
    MetadataProvider,
};
use skrifa::outline::pen::PathStyle;

// ---------------------------------------------------------------------------------------------
// recording pen, grammar, canonical rendering

#[derive(Clone, Copy, Debug)]
enum Cmd {
    M(f32, f32),
    L(f32, f32),
    Q(f32, f32, f32, f32),
    C(f32, f32, f32, f32, f32, f32),
    Z,
}

impl Cmd {
    fn coords(&self) -> Vec<f32> {
        match *self {
            Cmd::M(a, b) | Cmd::L(a, b) => vec![a, b],
            Cmd::Q(a, b, c, d) => vec![a, b, c, d],
            Cmd::C(a, b, c, d, e, f) => vec![a, b, c, d, e, f],
            Cmd::Z => vec![],
        }
    }
    fn letter(&self) -> char {
        match self {
            Cmd::M(..) => 'M',
            Cmd::L(..) => 'L',
            Cmd::Q(..) => 'Q',
            Cmd::C(..) => 'C',
            Cmd::Z => 'Z',
        }
    }
    /// exact rendering: letter + bit patterns
    fn bits(&self) -> String {
        let mut s = String::new();
        s.push(self.letter());
        for v in self.coords() {
            s.push_str(&format!(" {:08x}", v.to_bits()));
        }
        s
    }
}

#[derive(Default)]
struct RecPen(Vec<Cmd>);
impl OutlinePen for RecPen {
    fn move_to(&mut self, x: f32, y: f32) {
        self.0.push(Cmd::M(x, y))
    }
    fn line_to(&mut self, x: f32, y: f32) {
        self.0.push(Cmd::L(x, y))
    }
    fn quad_to(&mut self, a: f32, b: f32, x: f32, y: f32) {
        self.0.push(Cmd::Q(a, b, x, y))
    }
    fn curve_to(&mut self, a: f32, b: f32, c: f32, d: f32, x: f32, y: f32) {
        self.0.push(Cmd::C(a, b, c, d, x, y))
    }
    fn close(&mut self) {
        self.0.push(Cmd::Z)
    }
}

/// `(Move Seg* Close)*`, written independently of the Lean `wellFormed`
fn well_formed(cmds: &[Cmd]) -> bool {
    let mut open = false;
    for c in cmds {
        match (open, c) {
            (false, Cmd::M(..)) => open = true,
            (false, _) => return false,
            (true, Cmd::Z) => open = false,
            (true, Cmd::M(..)) => return false,
            (true, _) => {}
        }
    }
    !open
}

fn all_finite(cmds: &[Cmd]) -> bool {
    cmds.iter().all(|c| c.coords().iter().all(|v| v.is_finite()))
}

fn render_bits(cmds: &[Cmd]) -> String {
    cmds.iter().map(|c| c.bits()).collect::<Vec<_>>().join(" ")
}

// ---------------------------------------------------------------------------------------------
// part A: to_path

#[derive(Clone, Copy, PartialEq)]
enum CoordKind {
    F26,
    Fx,
    I32,
    F32,
}

/// run the real `to_path`; canonical string in the model's vocabulary.
/// fixed kinds: outputs are rescaled by the (power of two) unit, giving exact integers.
fn run_to_path(kind: CoordKind, style: PathStyle, pts: &[(i32, i32)], flags: &[u8], contours: &[u16]) -> (String, Vec<Cmd>, bool) {
    let fl: Vec<PointFlags> = flags.iter().map(|b| PointFlags::from_bits(*b)).collect();
    let mut pen = RecPen::default();
    let res = match kind {
        CoordKind::F26 => {
            let p: Vec<Point<F26Dot6>> = pts.iter().map(|(x, y)| Point::new(F26Dot6::from_bits(*x), F26Dot6::from_bits(*y))).collect();
            verif_hooks::points_to_path(&p, &fl, contours, style, &mut pen)
        }
        CoordKind::Fx => {
            let p: Vec<Point<Fixed>> = pts.iter().map(|(x, y)| Point::new(Fixed::from_bits(*x), Fixed::from_bits(*y))).collect();
            verif_hooks::points_to_path(&p, &fl, contours, style, &mut pen)
        }
        CoordKind::I32 => {
            let p: Vec<Point<i32>> = pts.iter().map(|(x, y)| Point::new(*x, *y)).collect();
            verif_hooks::points_to_path(&p, &fl, contours, style, &mut pen)
        }
        CoordKind::F32 => {
            let p: Vec<Point<f32>> = pts.iter().map(|(x, y)| Point::new(*x as f32, *y as f32)).collect();
            verif_hooks::points_to_path(&p, &fl, contours, style, &mut pen)
        }
    };
    let scale: f64 = match kind {
        CoordKind::F26 => 64.0,
        CoordKind::Fx => 65536.0,
        CoordKind::I32 => 1.0,
        CoordKind::F32 => 2.0,
    };
    let mut parts: Vec<String> = vec![];
    for c in &pen.0 {
        let mut s = String::new();
        s.push(c.letter());
        for v in c.coords() {
            let w = v as f64 * scale;
            if w.fract() != 0.0 || !w.is_finite() {
                s.push_str(&format!(" inexact({v})"));
            } else {
                s.push_str(&format!(" {}", w as i64));
            }
        }
        parts.push(s);
    }
    let ok = res.is_ok();
    let tail = match res {
        Ok(()) => "ok".to_string(),
        Err(e) => {
            use skrifa::outline::error::ToPathError as E;
            match e {
                E::ContourOrder(i) => format!("err:ContourOrder:{i}"),
                E::ExpectedQuad(i) => format!("err:ExpectedQuad:{i}"),
                E::ExpectedQuadOrOnCurve(i) => format!("err:ExpectedQuadOrOnCurve:{i}"),
                E::ExpectedCubic(i) => format!("err:ExpectedCubic:{i}"),
                E::PointFlagMismatch { num_points, num_flags } => format!("err:PointFlagMismatch:{num_points}:{num_flags}"),
            }
        }
    };
    parts.push(tail);
    (parts.join(" "), pen.0, ok)
}

fn part_to_path(cfg: &Config, s: &mut Session, rng: &mut Rng) {
    let n = if cfg.thorough() { 400_000 } else { 40_000 };
    let bvals = boundary_i32();
    for it in 0..n {
        let kind = *rng.pick(&[CoordKind::F26, CoordKind::Fx, CoordKind::I32, CoordKind::F32]);
        let style = if rng.chance(1, 2) { PathStyle::FreeType } else { PathStyle::HarfBuzz };
        // contour structure
        let nc = rng.below(4) as usize;
        let mut contours: Vec<u16> = vec![];
        let mut np = 0usize;
        for _ in 0..nc {
            let len = match rng.below(10) {
                0 => 1,
                1 => 2,
                2 => 3,
                _ => 1 + rng.below(7) as usize,
            };
            np += len;
            contours.push((np - 1) as u16);
        }
        // flag profile
        let profile = rng.below(6);
        let mut flags: Vec<u8> = (0..np)
            .map(|_| match profile {
                0 => 0,                                             // all off-curve quads
                1 => *rng.pick(&[0u8, 1]),                          // quadratic outline
                2 => *rng.pick(&[1u8, 1, 0x80, 0x80, 0]),           // cubic-ish
                3 => 1,                                             // polygon
                4 => *rng.pick(&[0u8, 1, 0x80, 0x81]),              // anything
                _ => *rng.pick(&[0u8, 0, 0, 1]),                    // mostly off
            })
            .collect();
        // well-formed cubic runs sometimes
        if profile == 2 && rng.chance(1, 2) {
            let mut i = 0;
            while i < flags.len() {
                if rng.chance(1, 2) && i + 2 < flags.len() {
                    flags[i] = 0x80;
                    flags[i + 1] = 0x80;
                    flags[i + 2] = 1;
                    i += 3;
                } else {
                    flags[i] = 1;
                    i += 1;
                }
            }
        }
        // coordinates
        let big = kind != CoordKind::F32 && rng.chance(1, 4);
        let mut pts: Vec<(i32, i32)> = (0..np)
            .map(|_| {
                if big {
                    (*rng.pick(&bvals), *rng.pick(&bvals))
                } else if kind == CoordKind::F32 {
                    (rng.range(-100_000, 100_000) as i32, rng.range(-100_000, 100_000) as i32)
                } else {
                    (rng.range(-70_000, 70_000) as i32, rng.range(-70_000, 70_000) as i32)
                }
            })
            .collect();
        // malformations
        match rng.below(12) {
            0 if !contours.is_empty() => {
                // end point out of order / out of range
                let i = rng.below(contours.len() as u64) as usize;
                contours[i] = *rng.pick(&[0u16, 1, (np as u16).wrapping_sub(0), np as u16 + 1, 65535]);
                s.count("tp:contour-mutated");
            }
            1 if !flags.is_empty() => {
                let k = rng.below(flags.len() as u64) as usize;
                flags.truncate(k);
                s.count("tp:flags-short");
            }
            2 => {
                flags.push(1);
                s.count("tp:flags-long");
            }
            3 if !pts.is_empty() => {
                let k = rng.below(pts.len() as u64) as usize;
                pts.truncate(k);
                s.count("tp:points-short");
            }
            4 if !contours.is_empty() => {
                // duplicate an end point (empty / reversed range)
                let i = rng.below(contours.len() as u64) as usize;
                let v = contours[i];
                contours.insert(i, v);
                s.count("tp:contour-dup");
            }
            _ => {}
        }
        let (resp, cmds, ok) = match catch(|| run_to_path(kind, style, &pts, &flags, &contours)) {
            Ok(r) => r,
            Err(_) => ("trap".to_string(), vec![], false),
        };
        let kind_n = if kind == CoordKind::F32 { 1 } else { 0 };
        let style_n = if matches!(style, PathStyle::FreeType) { 0 } else { 1 };
        let mult = if kind == CoordKind::F32 { 2i64 } else { 1 };
        let mut req = format!("tp {kind_n} {style_n} {} {} {}", pts.len(), flags.len(), contours.len());
        for (x, y) in &pts {
            req.push_str(&format!(" {} {}", *x as i64 * mult, *y as i64 * mult));
        }
        for f in &flags {
            // PointFlags::from_bits masks to the curve bits
            req.push_str(&format!(" {}", f & 0x81));
        }
        for c in &contours {
            req.push_str(&format!(" {c}"));
        }
        let input = req.clone();
        s.case("to_path", req, resp.clone());
        s.count(if ok { "tp:ok" } else { "tp:err" });
        if let Some(e) = resp.rsplit(' ').next() {
            if e.starts_with("err:") {
                let k: Vec<&str> = e.split(':').collect();
                s.count(&format!("tp:{}", k[1]));
            }
        }
        if it < 4 {
            s.count("tp:first");
        }
        if ok {
            s.oracle("to_path.grammar", well_formed(&cmds), || input.clone(), || render_bits(&cmds));
            s.oracle("to_path.finite", all_finite(&cmds), || input.clone(), || render_bits(&cmds));
            for c in &cmds {
                s.count(&format!("tp:cmd:{}", c.letter()));
            }
        } else {
            // the partial stream is still finite
            s.oracle("to_path.finite", all_finite(&cmds), || input.clone(), || render_bits(&cmds));
        }
    }
}

// ---------------------------------------------------------------------------------------------
// part B: carving

fn counts_args(c: &OutlineCounts) -> String {
    format!(
        "{} {} {} {} {} {} {} {} {} {} {}",
        c.points,
        c.contours,
        c.max_simple_points,
        c.max_other_points,
        c.max_component_delta_stack,
        c.max_stack,
        c.cvt_count,
        c.storage_count,
        c.max_twilight_points,
        c.has_hinting as u8,
        c.has_variations as u8
    )
}

fn render_layout(l: &Option<Vec<verif_hooks::SliceLayout>>) -> String {
    match l {
        None => "none".into(),
        Some(v) => v.iter().map(|(n, off, len, sz)| format!("{n}:{off}:{len}:{sz}")).collect::<Vec<_>>().join(" "),
    }
}

/// property oracle on a carved layout: right lengths are checked by correspondence; here: inside the
/// buffer, aligned to the element type, pairwise disjoint
fn layout_good(l: &[verif_hooks::SliceLayout], base_off: usize, len: usize) -> Result<(), String> {
    let mut spans: Vec<(usize, usize, &str)> = vec![];
    for (n, off, cnt, sz) in l {
        if *cnt == 0 {
            continue;
        }
        let align = match *sz {
            8 | 4 => 4,
            2 => 2,
            _ => 1,
        };
        if off + cnt * sz > len {
            return Err(format!("{n} ends at {} > len {len}", off + cnt * sz));
        }
        if (base_off + off) % align != 0 {
            return Err(format!("{n} misaligned: base%16={base_off} off={off} align={align}"));
        }
        spans.push((*off, off + cnt * sz, n));
    }
    spans.sort();
    for w in spans.windows(2) {
        if w[0].1 > w[1].0 {
            return Err(format!("{} [{}..{}) overlaps {} [{}..{})", w[0].2, w[0].0, w[0].1, w[1].2, w[1].0, w[1].1));
        }
    }
    Ok(())
}

/// a byte buffer whose first byte sits at an address ≡ `off` (mod 16)
struct OffsetBuf {
    store: Vec<u8>,
    start: usize,
    len: usize,
}
impl OffsetBuf {
    fn new(off: usize, len: usize) -> Self {
        let store = vec![0xA5u8; len + 48];
        let addr = store.as_ptr() as usize;
        let start = ((16 - addr % 16) % 16) + off;
        OffsetBuf { store, start, len }
    }
    fn slice(&mut self) -> &mut [u8] {
        &mut self.store[self.start..self.start + self.len]
    }
}

fn expected_size(c: &OutlineCounts, emb: bool) -> usize {
    // independent restatement of the payload (not the code's formula): sum over the carved slices
    let hinted = c.has_hinting && emb;
    let mut t = c.points * 8 + c.max_other_points * 8 + c.contours * 2 + c.points;
    if hinted {
        t += c.max_other_points * 8 + c.max_stack * 4 + c.cvt_count * 4 + c.storage_count * 4 + c.max_twilight_points * 17;
    }
    if c.has_variations {
        t += c.max_simple_points * 16 + c.max_component_delta_stack * 8;
    }
    t
}

fn part_carve(cfg: &Config, s: &mut Session, rng: &mut Rng) {
    let n = if cfg.thorough() { 300_000 } else { 30_000 };
    for _ in 0..n {
        let small = |rng: &mut Rng| -> usize {
            match rng.below(8) {
                0 | 1 => 0,
                2 => 1,
                3 => 4,
                _ => rng.below(40) as usize,
            }
        };
        let plausible = rng.chance(2, 3);
        let mut c = OutlineCounts {
            points: small(rng),
            contours: small(rng),
            max_simple_points: small(rng),
            max_other_points: small(rng),
            max_component_delta_stack: small(rng),
            max_stack: small(rng),
            cvt_count: small(rng),
            storage_count: small(rng),
            max_twilight_points: small(rng),
            has_hinting: rng.chance(1, 2),
            has_variations: rng.chance(1, 2),
        };
        if plausible {
            // what Outlines::outline can produce: 4 phantom points always; simple glyph reached ⇒ other ≥ 4
            c.points += 4;
            if c.points > 4 && c.max_other_points == 0 {
                c.max_other_points = 4 + rng.below(10) as usize;
            }
            if c.points == 4 {
                c.contours = 0;
                c.max_simple_points = 0;
            }
        }
        let emb = rng.chance(1, 2);
        let adv = verif_hooks::required_buffer_size(c, emb);
        s.case("carve.size", format!("carve.size {} {}", emb as u8, counts_args(&c)), adv.to_string());
        let payload = expected_size(&c, emb);
        s.oracle(
            "carve.size.covers_payload",
            adv >= payload && (payload == 0 || adv >= payload + 3),
            || format!("emb={emb} {}", counts_args(&c)),
            || format!("advertised {adv} payload {payload}"),
        );
        let off = rng.below(16) as usize;
        let len = match rng.below(10) {
            0 => adv.saturating_sub(1 + rng.below(8) as usize),
            1 => adv + rng.below(9) as usize,
            2 => rng.below(adv as u64 + 1) as usize,
            3 => payload,
            _ => adv,
        };
        let hb = rng.chance(1, 3);
        let mut buf = OffsetBuf::new(off, len);
        if hb {
            let l = catch(|| verif_hooks::harfbuzz_memory_layout(c, buf.slice()));
            let resp = match &l {
                Ok(l) => render_layout(l),
                Err(_) => "trap".into(),
            };
            s.case("carve.hb", format!("carve.hb {off} {len} {}", counts_args(&c)), resp.clone());
            s.count(if resp == "none" { "carve.hb:none" } else { "carve.hb:some" });
            let adv_hb = verif_hooks::required_buffer_size(c, false);
            let input = || format!("hb off={off} len={len} {}", counts_args(&c));
            if let Ok(Some(l)) = &l {
                let g = layout_good(l, off, len);
                s.oracle("carve.hb.layout", g.is_ok(), input, || g.clone().unwrap_err());
            }
            if len >= adv_hb && (plausible || c.max_other_points >= 1 || !c.has_variations) {
                s.oracle("carve.hb.sufficient", matches!(l, Ok(Some(_))), input, || resp.clone());
            } else if len >= adv_hb {
                s.count(if matches!(l, Ok(Some(_))) { "carve.hb:implausible-ok" } else { "carve.hb:implausible-none" });
            }
        } else {
            let l = catch(|| verif_hooks::freetype_memory_layout(c, buf.slice(), emb));
            let resp = match &l {
                Ok(l) => render_layout(l),
                Err(_) => "trap".into(),
            };
            s.case("carve.ft", format!("carve.ft {} {off} {len} {}", emb as u8, counts_args(&c)), resp.clone());
            s.count(if resp == "none" { "carve.ft:none" } else { "carve.ft:some" });
            let input = || format!("ft emb={emb} off={off} len={len} {}", counts_args(&c));
            if let Ok(Some(l)) = &l {
                let g = layout_good(l, off, len);
                s.oracle("carve.ft.layout", g.is_ok(), input, || g.clone().unwrap_err());
            }
            if len >= adv {
                s.oracle("carve.ft.sufficient", matches!(l, Ok(Some(_))), input, || resp.clone());
            }
            if len < payload {
                s.oracle("carve.ft.small_is_none", matches!(l, Ok(None)), input, || resp.clone());
            }
        }
    }
}

// ---------------------------------------------------------------------------------------------
// part C: whole draws on fonts

#[derive(Clone, PartialEq)]
struct DrawOut {
    result: String,
    cmds: String,
    ok: bool,
    wf: bool,
    finite: bool,
    n_cmds: usize,
}

fn render_result(r: &Result<skrifa::outline::AdjustedMetrics, DrawError>) -> String {
    match r {
        Ok(m) => format!(
            "ok overlaps={} lsb={:?} adv={:?}",
            m.has_overlaps,
            m.lsb.map(|v| v.to_bits()),
            m.advance_width.map(|v| v.to_bits())
        ),
        Err(e) => format!("err {e:?}"),
    }
}

fn finish_draw(r: Result<Result<skrifa::outline::AdjustedMetrics, DrawError>, String>, pen: RecPen) -> DrawOut {
    match r {
        Ok(r) => DrawOut {
            result: render_result(&r),
            cmds: render_bits(&pen.0),
            ok: r.is_ok(),
            wf: well_formed(&pen.0),
            finite: all_finite(&pen.0)
                && r.as_ref().map(|m| m.lsb.map_or(true, |v| v.is_finite()) && m.advance_width.map_or(true, |v| v.is_finite())).unwrap_or(true),
            n_cmds: pen.0.len(),
        },
        Err(p) => DrawOut { result: format!("panic {p}"), cmds: render_bits(&pen.0), ok: false, wf: false, finite: false, n_cmds: 0 },
    }
}

#[derive(Clone, Copy)]
enum Mem {
    Library,
    /// caller buffer: address offset (mod 16), length
    Caller(usize, usize),
}

fn draw_unhinted(g: &OutlineGlyph, size: Size, loc: LocationRef, style: PathStyle, mem: Mem) -> DrawOut {
    let mut pen = RecPen::default();
    let r = catch(|| match mem {
        Mem::Library => g.draw(DrawSettings::unhinted(size, loc).with_path_style(style), &mut pen),
        Mem::Caller(off, len) => {
            let mut b = OffsetBuf::new(off, len);
            g.draw(DrawSettings::unhinted(size, loc).with_path_style(style).with_memory(Some(b.slice())), &mut pen)
        }
    });
    finish_draw(r, pen)
}

fn draw_hinted(g: &OutlineGlyph, inst: &HintingInstance, pedantic: bool, mem: Mem) -> DrawOut {
    let mut pen = RecPen::default();
    let r = catch(|| match mem {
        Mem::Library => g.draw(DrawSettings::hinted(inst, pedantic), &mut pen),
        Mem::Caller(off, len) => {
            let mut b = OffsetBuf::new(off, len);
            g.draw(DrawSettings::hinted(inst, pedantic).with_memory(Some(b.slice())), &mut pen)
        }
    });
    finish_draw(r, pen)
}

fn size_name(s: Size) -> String {
    match s.ppem() {
        None => "unscaled".into(),
        Some(p) => format!("{p}"),
    }
}

fn coords_name(c: &[F2Dot14]) -> String {
    if c.is_empty() {
        "-".into()
    } else {
        c.iter().map(|v| v.to_bits().to_string()).collect::<Vec<_>>().join(",")
    }
}

struct FontCase {
    name: String,
    data: Vec<u8>,
}

fn load_fonts() -> Vec<FontCase> {
    let dir = "/repo/font-test-data/test_data/ttf";
    let mut names: Vec<String> = std::fs::read_dir(dir)
        .map(|d| d.filter_map(|e| e.ok()).map(|e| e.file_name().to_string_lossy().to_string()).collect())
        .unwrap_or_default();
    names.sort();
    let mut out = vec![];
    for n in names {
        if !(n.ends_with(".ttf") || n.ends_with(".otf")) {
            continue;
        }
        if let Ok(data) = std::fs::read(format!("{dir}/{n}")) {
            if FontRef::new(&data).is_ok() {
                out.push(FontCase { name: n, data });
            }
        }
    }
    out
}

fn random_coords(rng: &mut Rng, n: usize) -> Vec<F2Dot14> {
    (0..n)
        .map(|_| {
            F2Dot14::from_bits(match rng.below(6) {
                0 => 16384,
                1 => -16384,
                2 => 0,
                3 => 8192,
                _ => rng.range(-16384, 16384) as i16,
            })
        })
        .collect()
}

fn hint_options(rng: &mut Rng) -> (HintingOptions, String) {
    let engine_n = rng.below(3);
    let target_n = rng.below(6);
    (options_from(engine_n, target_n), format!("e{engine_n}t{target_n}"))
}

fn options_from(engine_n: u64, target_n: u64) -> HintingOptions {
    let engine = match engine_n {
        0 => Engine::Interpreter,
        1 => Engine::Auto(None),
        _ => Engine::AutoFallback,
    };
    let target = match target_n {
        0 => Target::Mono,
        1 => Target::Smooth { mode: SmoothMode::Normal, symmetric_rendering: true, preserve_linear_metrics: false },
        2 => Target::Smooth { mode: SmoothMode::Light, symmetric_rendering: true, preserve_linear_metrics: false },
        3 => Target::Smooth { mode: SmoothMode::Lcd, symmetric_rendering: false, preserve_linear_metrics: false },
        4 => Target::Smooth { mode: SmoothMode::VerticalLcd, symmetric_rendering: true, preserve_linear_metrics: true },
        _ => Target::Smooth { mode: SmoothMode::Normal, symmetric_rendering: false, preserve_linear_metrics: true },
    };
    HintingOptions { engine, target }
}

fn pick_size(rng: &mut Rng) -> Size {
    match rng.below(8) {
        0 => Size::unscaled(),
        1 => Size::new(8.0),
        2 => Size::new(12.0),
        3 => Size::new(16.0),
        4 => Size::new(37.5),
        5 => Size::new(100.0),
        6 => Size::new(1.0),
        _ => Size::new((rng.below(6000) as f32) / 64.0 + 4.0),
    }
}

fn glyph_sample(rng: &mut Rng, n_glyphs: u32, cap: usize) -> Vec<u32> {
    if n_glyphs as usize <= cap {
        return (0..n_glyphs).collect();
    }
    let mut v: Vec<u32> = (0..(cap as u32 / 2)).collect();
    while v.len() < cap {
        let g = rng.below(n_glyphs as u64) as u32;
        if !v.contains(&g) {
            v.push(g);
        }
    }
    v
}

fn part_fonts(cfg: &Config, s: &mut Session, rng: &mut Rng) {
    let fonts = load_fonts();
    let refs: Vec<FontRef> = fonts.iter().map(|f| FontRef::new(&f.data).unwrap()).collect();
    let collections: Vec<OutlineGlyphCollection> = refs.iter().map(|f| f.outline_glyphs()).collect();
    let cap = if cfg.thorough() { 400 } else { 40 };
    let configs_per_font = if cfg.thorough() { 10 } else { 3 };
    for (fi, font) in refs.iter().enumerate() {
        let name = &fonts[fi].name;
        let outlines = &collections[fi];
        let n_glyphs = font.maxp().map(|m| m.num_glyphs() as u32).unwrap_or(0);
        let axis_count = font.axes().len();
        let is_glyf = font.glyf().is_ok() && font.loca(None).is_ok();
        if outlines.get(GlyphId::new(0)).is_none() && n_glyphs > 0 && outlines.iter().next().is_none() {
            s.count("fonts:no-outlines");
            continue;
        }
        s.count(if is_glyf { "fonts:glyf" } else { "fonts:cff" });
        if axis_count > 0 {
            s.count("fonts:variable");
        }
        for ci in 0..configs_per_font {
            let gids = glyph_sample(rng, n_glyphs, cap);
            let size = if ci == 0 { Size::new(16.0) } else { pick_size(rng) };
            let coords: Vec<F2Dot14> = if axis_count > 0 && ci > 0 { random_coords(rng, axis_count) } else { vec![] };
            let zero_coords: Vec<F2Dot14> = vec![F2Dot14::ZERO; if axis_count > 0 { axis_count } else { 1 + rng.below(3) as usize }];
            let loc = LocationRef::new(&coords);
            let ctx = |gid: u32, what: &str| format!("font={name} gid={gid} size={} coords={} {what}", size_name(size), coords_name(&coords));

            // ---------------- unhinted -----------------
            for &gid in &gids {
                let Some(g) = outlines.get(GlyphId::new(gid)) else {
                    s.count("draw:no-glyph");
                    continue;
                };
                for style in [PathStyle::FreeType, PathStyle::HarfBuzz] {
                    let sn = if matches!(style, PathStyle::FreeType) { "ft" } else { "hb" };
                    let base = draw_unhinted(&g, size, loc, style, Mem::Library);
                    s.count(if base.ok { "draw:unhinted-ok" } else { "draw:unhinted-err" });
                    if base.ok && is_glyf {
                        s.oracle("draw.grammar", base.wf, || ctx(gid, sn), || base.cmds.clone());
                    }
                    if base.ok {
                        s.oracle("draw.finite", base.finite, || ctx(gid, sn), || format!("{} {}", base.result, base.cmds));
                    }
                    s.oracle("draw.no_panic", !base.result.starts_with("panic"), || ctx(gid, sn), || base.result.clone());
                    let again = draw_unhinted(&g, size, loc, style, Mem::Library);
                    s.oracle("draw.twice", again == base, || ctx(gid, sn), || format!("{} | {}", base.result, again.result));
                    // caller memory of exactly the advertised size at misaligned bases
                    let adv = g.draw_memory_size(skrifa::outline::Hinting::None);
                    let offs: Vec<usize> = if cfg.thorough() { (0..9).collect() } else { vec![0, 1 + rng.below(3) as usize, 4 + rng.below(5) as usize] };
                    for off in offs {
                        let m = draw_unhinted(&g, size, loc, style, Mem::Caller(off, adv));
                        s.oracle("draw.caller_memory", m == base, || ctx(gid, &format!("{sn} off={off} len={adv}")), || format!("{} | {}", base.result, m.result));
                    }
                    let m = draw_unhinted(&g, size, loc, style, Mem::Caller(rng.below(9) as usize, adv + 1 + rng.below(64) as usize));
                    s.oracle("draw.caller_memory", m == base, || ctx(gid, &format!("{sn} larger")), || format!("{} | {}", base.result, m.result));
                    if adv > 0 {
                        // too small: may fail, must not panic, and if it succeeds it must agree
                        let m = draw_unhinted(&g, size, loc, style, Mem::Caller(rng.below(9) as usize, adv - 1 - rng.below(adv.min(8) as u64) as usize));
                        s.oracle(
                            "draw.small_memory",
                            m == base || m.result.contains("InsufficientMemory"),
                            || ctx(gid, &format!("{sn} smaller")),
                            || format!("{} | {}", base.result, m.result),
                        );
                        s.count(if m == base { "draw:small-ok" } else { "draw:small-insufficient" });
                    }
                    // None vs all-zero location
                    if coords.is_empty() {
                        let z = draw_unhinted(&g, size, LocationRef::new(&zero_coords), style, Mem::Library);
                        s.oracle("draw.zero_location", z == base, || ctx(gid, &format!("{sn} zeros={}", zero_coords.len())), || format!("{} | {}", base.result, z.result));
                    }
                    // model tie for the advertised size on real glyph metrics
                    if let Some(c) = verif_hooks::outline_counts(&g) {
                        if matches!(style, PathStyle::FreeType) {
                            s.case("glyph.size", format!("carve.size 0 {}", counts_args(&c)), adv.to_string());
                            let adv_h = g.draw_memory_size(skrifa::outline::Hinting::Embedded);
                            s.case("glyph.size", format!("carve.size 1 {}", counts_args(&c)), adv_h.to_string());
                            // the invariant the HarfBuzz carve relies on
                            s.oracle(
                                "counts.other_points_invariant",
                                c.max_other_points >= 1 || (c.points == 4 && c.contours == 0 && c.max_simple_points == 0),
                                || ctx(gid, "counts"),
                                || counts_args(&c),
                            );
                        }
                    }
                }
            }

            // ---------------- hinted -----------------
            let (opts, on) = if ci == 0 { (options_from(0, 1), "e0t1".to_string()) } else { hint_options(rng) };
            let fresh = catch(|| HintingInstance::new(outlines, size, loc, opts.clone()));
            let fresh = match fresh {
                Ok(Ok(i)) => i,
                Ok(Err(e)) => {
                    s.count("hint:new-err");
                    // a reused instance must fail the same way
                    let mut dirty = dirty_instance(rng, &collections);
                    if let Some(d) = dirty.as_mut() {
                        let r = catch(|| d.reconfigure(outlines, size, loc, opts.clone()));
                        let same = matches!(&r, Ok(Err(e2)) if format!("{e2:?}") == format!("{e:?}"));
                        s.oracle("hint.reconfigure_error_same", same, || ctx(0, &on), || format!("{e:?} vs {:?}", r.map(|x| x.map_err(|e| format!("{e:?}")))));
                    }
                    continue;
                }
                Err(p) => {
                    s.oracle("draw.no_panic", false, || ctx(0, &format!("HintingInstance::new {on}")), || p.clone());
                    continue;
                }
            };
            s.count(if fresh.is_enabled() { "hint:enabled" } else { "hint:disabled" });
            let fresh_state = fresh.verif_state();
            // effective coords observed through the instance
            {
                let got: Vec<i64> = fresh.location().coords().iter().map(|c| c.to_bits() as i64).collect();
                let req = format!("eff {}", if coords.is_empty() { "".to_string() } else { coords.iter().map(|c| c.to_bits().to_string()).collect::<Vec<_>>().join(" ") });
                s.case("eff", req.trim_end().to_string(), join(&got));
            }
            // reused instance: configured for other fonts / sizes / locations / modes before
            let mut reused_ok = None;
            for _ in 0..(if cfg.thorough() { 3 } else { 1 }) {
                if let Some(mut d) = dirty_instance(rng, &collections) {
                    let r = catch(|| d.reconfigure(outlines, size, loc, opts.clone()));
                    match r {
                        Ok(Ok(())) => {
                            let st = d.verif_state();
                            s.oracle("hint.reconfigure_state", st == fresh_state, || ctx(0, &on), || diff_hint(&fresh_state, &st));
                            reused_ok = Some(d);
                        }
                        other => {
                            s.oracle("hint.reconfigure_state", false, || ctx(0, &on), || format!("fresh ok, reused {:?}", other.map(|x| x.map_err(|e| format!("{e:?}")))));
                        }
                    }
                }
            }
            // all-zero location instance
            let zero_inst = if coords.is_empty() {
                match catch(|| HintingInstance::new(outlines, size, LocationRef::new(&zero_coords), opts.clone())) {
                    Ok(Ok(z)) => {
                        s.oracle("hint.zero_location_state", z.verif_state() == fresh_state, || ctx(0, &on), || diff_hint(&fresh_state, &z.verif_state()));
                        Some(z)
                    }
                    other => {
                        s.oracle("hint.zero_location_state", false, || ctx(0, &on), || format!("{:?}", other.map(|x| x.map(|_| ()).map_err(|e| format!("{e:?}")))));
                        None
                    }
                }
            } else {
                None
            };
            let pedantic = rng.chance(1, 4);
            let mut base_outs: Vec<(u32, DrawOut)> = vec![];
            for &gid in &gids {
                let Some(g) = outlines.get(GlyphId::new(gid)) else { continue };
                let base = draw_hinted(&g, &fresh, pedantic, Mem::Library);
                s.count(if base.ok { "draw:hinted-ok" } else { "draw:hinted-err" });
                let hctx = |what: &str| ctx(gid, &format!("hinted {on} pedantic={pedantic} {what}"));
                if base.ok && is_glyf {
                    s.oracle("draw.grammar", base.wf, || hctx(""), || base.cmds.clone());
                }
                if base.ok {
                    s.oracle("draw.finite", base.finite, || hctx(""), || format!("{} {}", base.result, base.cmds));
                }
                s.oracle("draw.no_panic", !base.result.starts_with("panic"), || hctx(""), || base.result.clone());
                let again = draw_hinted(&g, &fresh, pedantic, Mem::Library);
                s.oracle("draw.twice", again == base, || hctx(""), || format!("{} | {}", base.result, again.result));
                let adv = g.draw_memory_size(skrifa::outline::Hinting::Embedded);
                let offs: Vec<usize> = if cfg.thorough() { (0..9).collect() } else { vec![0, 1 + rng.below(3) as usize, 4 + rng.below(5) as usize] };
                for off in offs {
                    let m = draw_hinted(&g, &fresh, pedantic, Mem::Caller(off, adv));
                    s.oracle("draw.caller_memory", m == base, || hctx(&format!("off={off} len={adv}")), || format!("{} | {}", base.result, m.result));
                }
                if let Some(d) = &reused_ok {
                    let m = draw_hinted(&g, d, pedantic, Mem::Library);
                    s.oracle("draw.reused_instance", m == base, || hctx("reused"), || format!("{} | {}", base.result, m.result));
                }
                if let Some(z) = &zero_inst {
                    let m = draw_hinted(&g, z, pedantic, Mem::Library);
                    s.oracle("draw.zero_location", m == base, || hctx("zeros"), || format!("{} | {}", base.result, m.result));
                }
                base_outs.push((gid, base));
            }
            // drawing does not write to the instance
            s.oracle("hint.draw_leaves_state", fresh.verif_state() == fresh_state, || ctx(0, &on), || diff_hint(&fresh_state, &fresh.verif_state()));
            // a second fresh instance, used in reverse glyph order (lazily computed state must not
            // depend on what was drawn first)
            if let Ok(Ok(second)) = catch(|| HintingInstance::new(outlines, size, loc, opts.clone())) {
                for (gid, base) in base_outs.iter().rev() {
                    let Some(g) = outlines.get(GlyphId::new(*gid)) else { continue };
                    let m = draw_hinted(&g, &second, pedantic, Mem::Library);
                    s.oracle("draw.order", &m == base, || ctx(*gid, &format!("hinted {on} reverse-order")), || format!("{} | {}", base.result, m.result));
                }
            }
            // concurrent draws through the shared instance
            let n_threads = if cfg.thorough() { 16 } else { 6 };
            let mut third = match catch(|| HintingInstance::new(outlines, size, loc, opts.clone())) {
                Ok(Ok(t)) => t,
                _ => continue,
            };
            let _ = &mut third;
            let shared = &third;
            let results: Vec<Vec<(u32, DrawOut)>> = std::thread::scope(|sc| {
                let handles: Vec<_> = (0..n_threads)
                    .map(|t| {
                        let base_outs = &base_outs;
                        sc.spawn(move || {
                            let mut out = vec![];
                            let n = base_outs.len();
                            for k in 0..n {
                                // each thread walks the glyphs in a different rotation / direction
                                let idx = if t % 2 == 0 { (k + t * 7) % n } else { (n - 1 - k + t * 5) % n };
                                let gid = base_outs[idx].0;
                                if let Some(g) = outlines.get(GlyphId::new(gid)) {
                                    out.push((idx as u32, draw_hinted(&g, shared, pedantic, Mem::Library)));
                                }
                            }
                            out
                        })
                    })
                    .collect();
                handles.into_iter().map(|h| h.join().unwrap_or_default()).collect()
            });
            for (t, r) in results.iter().enumerate() {
                for (idx, m) in r {
                    let (gid, base) = &base_outs[*idx as usize];
                    s.oracle("draw.threads", m == base, || ctx(*gid, &format!("hinted {on} thread={t}")), || format!("{} | {}", base.result, m.result));
                }
            }
        }
    }
}

/// an instance that has been through 1–3 other configurations (other fonts, sizes, locations, modes)
fn dirty_instance(rng: &mut Rng, collections: &[OutlineGlyphCollection]) -> Option<HintingInstance> {
    let mut inst: Option<HintingInstance> = None;
    let steps = 1 + rng.below(3);
    for _ in 0..steps {
        let fi = rng.below(collections.len() as u64) as usize;
        let outlines = &collections[fi];
        let size = pick_size(rng);
        let n_axes = rng.below(4) as usize;
        let coords = random_coords(rng, n_axes);
        let (opts, _) = hint_options(rng);
        match inst.as_mut() {
            None => {
                if let Ok(Ok(i)) = catch(|| HintingInstance::new(outlines, size, LocationRef::new(&coords), opts)) {
                    inst = Some(i);
                }
            }
            Some(i) => {
                let _ = catch(|| i.reconfigure(outlines, size, LocationRef::new(&coords), opts));
            }
        }
    }
    inst
}

/// first differing field of two `verif_state` strings
fn diff_hint(a: &str, b: &str) -> String {
    let pa: Vec<&str> = a.split(' ').collect();
    let pb: Vec<&str> = b.split(' ').collect();
    for (i, (x, y)) in pa.iter().zip(pb.iter()).enumerate() {
        if x != y {
            let lo = i.saturating_sub(2);
            return format!("token {i}: fresh ..{}.. vs ..{}..", pa[lo..(i + 3).min(pa.len())].join(" "), pb[lo..(i + 3).min(pb.len())].join(" "));
        }
    }
    format!("lengths {} vs {}", pa.len(), pb.len())
}

fn run(cfg: &Config, s: &mut Session) {
    let mut rng = Rng::new(cfg.seed);
    part_to_path(cfg, s, &mut rng);
    part_carve(cfg, s, &mut rng);
    let mut rng = Rng::new(cfg.seed ^ 0xC12);
    part_fonts(cfg, s, &mut rng);
    let _ = Location::new(0);
}

fn main() {
    fv_harness::main_with("C12", run)
}
