//! C12 — drawing is well-formed and independent of buffers, history and threads.
//!
//! Correspondence (real code vs Lean model through `drv_c12`):
//!   tp          `outline::path::to_path` on random point/flag/contour arrays (hook `points_to_path`),
//!               coordinate types F26Dot6 / Fixed / i32 (model `fixedCoord`) and f32 (model `exactCoord`)
//!   carve.ft/hb `FreeTypeOutlineMemory::new` / `HarfBuzzOutlineMemory::new` on random metric records,
//!               base address offsets 0..15 and buffer lengths around the advertised size
//!   carve.size  `Outline::required_buffer_size` (random records; real glyphs: `draw_memory_size`)
//!   eff         `LocationRef::effective_coords` (observed through `HintingInstance::location`)
//!   vstack      the interpreter's `ValueStack` on dirty backing memory (hook `hint_value_stack::run`)
//!   rpf         `SimpleGlyph::read_points_fast` into dirty point / flag buffers
//! Model-independent oracles on the public API (corpus fonts + every glyph/size/location/hinting mix):
//!   grammar, finiteness, draw twice, caller memory of the advertised size at misaligned bases,
//!   None vs all-zero location, fresh vs reused HintingInstance, instance state untouched by draws,
//!   draw order, concurrent draws through one shared instance.
use fv_harness::common::*;
use read_fonts::{
    tables::glyf::PointFlags,
    types::{F26Dot6, F2Dot14, Fixed, GlyphId, Point},
    FontRef, TableProvider,
};
use skrifa::{
    instance::{Location, LocationRef, Size},
    outline::{
        verif_hooks::{self, OutlineCounts},
        DrawError, DrawSettings, Engine, HintingInstance, HintingOptions, OutlineGlyph,
        OutlineGlyphCollection, OutlinePen, SmoothMode, Target,
    },
    MetadataProvider,
};
use skrifa::outline::pen::PathStyle;

// ---------------------------------------------------------------------------------------------
// recording pen, grammar, canonical rendering

#[derive(Clone, Copy, Debug)]
enum Cmd {
    M(f32, f32),
    L(f32, f32),
    Q(f32, f32, f32, f32),
    C(f32, f32, f32, f32, f32, f32),
    Z,
}

impl Cmd {
    fn coords(&self) -> Vec<f32> {
        match *self {
            Cmd::M(a, b) | Cmd::L(a, b) => vec![a, b],
            Cmd::Q(a, b, c, d) => vec![a, b, c, d],
            Cmd::C(a, b, c, d, e, f) => vec![a, b, c, d, e, f],
            Cmd::Z => vec![],
        }
    }
    fn letter(&self) -> char {
        match self {
            Cmd::M(..) => 'M',
            Cmd::L(..) => 'L',
            Cmd::Q(..) => 'Q',
            Cmd::C(..) => 'C',
            Cmd::Z => 'Z',
        }
    }
    /// exact rendering: letter + bit patterns
    fn bits(&self) -> String {
        let mut s = String::new();
        s.push(self.letter());
        for v in self.coords() {
            s.push_str(&format!(" {:08x}", v.to_bits()));
        }
        s
    }
}

#[derive(Default)]
struct RecPen(Vec<Cmd>);
impl OutlinePen for RecPen {
    fn move_to(&mut self, x: f32, y: f32) {
        self.0.push(Cmd::M(x, y))
    }
    fn line_to(&mut self, x: f32, y: f32) {
        self.0.push(Cmd::L(x, y))
    }
    fn quad_to(&mut self, a: f32, b: f32, x: f32, y: f32) {
        self.0.push(Cmd::Q(a, b, x, y))
    }
    fn curve_to(&mut self, a: f32, b: f32, c: f32, d: f32, x: f32, y: f32) {
        self.0.push(Cmd::C(a, b, c, d, x, y))
    }
    fn close(&mut self) {
        self.0.push(Cmd::Z)
    }
}

/// `(Move Seg* Close)*`, written independently of the Lean `wellFormed`
fn well_formed(cmds: &[Cmd]) -> bool {
    let mut open = false;
    for c in cmds {
        match (open, c) {
            (false, Cmd::M(..)) => open = true,
            (false, _) => return false,
            (true, Cmd::Z) => open = false,
            (true, Cmd::M(..)) => return false,
            (true, _) => {}
        }
    }
    !open
}

fn all_finite(cmds: &[Cmd]) -> bool {
    cmds.iter().all(|c| c.coords().iter().all(|v| v.is_finite()))
}

fn render_bits(cmds: &[Cmd]) -> String {
    cmds.iter().map(|c| c.bits()).collect::<Vec<_>>().join(" ")
}

// ---------------------------------------------------------------------------------------------
// part A: to_path

#[derive(Clone, Copy, PartialEq)]
enum CoordKind {
    F26,
    Fx,
    I32,
    F32,
}

/// run the real `to_path`; canonical string in the model's vocabulary.
/// fixed kinds: outputs are rescaled by the (power of two) unit, giving exact integers.
fn run_to_path(kind: CoordKind, style: PathStyle, pts: &[(i32, i32)], flags: &[u8], contours: &[u16]) -> (String, Vec<Cmd>, bool) {
    let fl: Vec<PointFlags> = flags.iter().map(|b| PointFlags::from_bits(*b)).collect();
    let mut pen = RecPen::default();
    let res = match kind {
        CoordKind::F26 => {
            let p: Vec<Point<F26Dot6>> = pts.iter().map(|(x, y)| Point::new(F26Dot6::from_bits(*x), F26Dot6::from_bits(*y))).collect();
            verif_hooks::points_to_path(&p, &fl, contours, style, &mut pen)
        }
        CoordKind::Fx => {
            let p: Vec<Point<Fixed>> = pts.iter().map(|(x, y)| Point::new(Fixed::from_bits(*x), Fixed::from_bits(*y))).collect();
            verif_hooks::points_to_path(&p, &fl, contours, style, &mut pen)
        }
        CoordKind::I32 => {
            let p: Vec<Point<i32>> = pts.iter().map(|(x, y)| Point::new(*x, *y)).collect();
            verif_hooks::points_to_path(&p, &fl, contours, style, &mut pen)
        }
        CoordKind::F32 => {
            let p: Vec<Point<f32>> = pts.iter().map(|(x, y)| Point::new(*x as f32, *y as f32)).collect();
            verif_hooks::points_to_path(&p, &fl, contours, style, &mut pen)
        }
    };
    let scale: f64 = match kind {
        CoordKind::F26 => 64.0,
        CoordKind::Fx => 65536.0,
        CoordKind::I32 => 1.0,
        CoordKind::F32 => 2.0,
    };
    let mut parts: Vec<String> = vec![];
    for c in &pen.0 {
        let mut s = String::new();
        s.push(c.letter());
        for v in c.coords() {
            let w = v as f64 * scale;
            if w.fract() != 0.0 || !w.is_finite() {
                s.push_str(&format!(" inexact({v})"));
            } else {
                s.push_str(&format!(" {}", w as i64));
            }
        }
        parts.push(s);
    }
    let ok = res.is_ok();
    let tail = match res {
        Ok(()) => "ok".to_string(),
        Err(e) => {
            use skrifa::outline::error::ToPathError as E;
            match e {
                E::ContourOrder(i) => format!("err:ContourOrder:{i}"),
                E::ExpectedQuad(i) => format!("err:ExpectedQuad:{i}"),
                E::ExpectedQuadOrOnCurve(i) => format!("err:ExpectedQuadOrOnCurve:{i}"),
                E::ExpectedCubic(i) => format!("err:ExpectedCubic:{i}"),
                E::PointFlagMismatch { num_points, num_flags } => format!("err:PointFlagMismatch:{num_points}:{num_flags}"),
            }
        }
    };
    parts.push(tail);
    (parts.join(" "), pen.0, ok)
}

fn part_to_path(cfg: &Config, s: &mut Session, rng: &mut Rng) {
    let n = if cfg.thorough() { 3_000_000 } else { 300_000 };
    let bvals = boundary_i32();
    for it in 0..n {
        let kind = *rng.pick(&[CoordKind::F26, CoordKind::Fx, CoordKind::I32, CoordKind::F32]);
        let style = if rng.chance(1, 2) { PathStyle::FreeType } else { PathStyle::HarfBuzz };
        // contour structure
        let nc = rng.below(4) as usize;
        let mut contours: Vec<u16> = vec![];
        let mut np = 0usize;
        for _ in 0..nc {
            let len = match rng.below(10) {
                0 => 1,
                1 => 2,
                2 => 3,
                _ => 1 + rng.below(7) as usize,
            };
            np += len;
            contours.push((np - 1) as u16);
        }
        // flag profile
        let profile = rng.below(6);
        let mut flags: Vec<u8> = (0..np)
            .map(|_| match profile {
                0 => 0,                                             // all off-curve quads
                1 => *rng.pick(&[0u8, 1]),                          // quadratic outline
                2 => *rng.pick(&[1u8, 1, 0x80, 0x80, 0]),           // cubic-ish
                3 => 1,                                             // polygon
                4 => *rng.pick(&[0u8, 1, 0x80, 0x81]),              // anything
                _ => *rng.pick(&[0u8, 0, 0, 1]),                    // mostly off
            })
            .collect();
        // well-formed cubic runs sometimes
        if profile == 2 && rng.chance(1, 2) {
            let mut i = 0;
            while i < flags.len() {
                if rng.chance(1, 2) && i + 2 < flags.len() {
                    flags[i] = 0x80;
                    flags[i + 1] = 0x80;
                    flags[i + 2] = 1;
                    i += 3;
                } else {
                    flags[i] = 1;
                    i += 1;
                }
            }
        }
        // coordinates
        let big = kind != CoordKind::F32 && rng.chance(1, 4);
        let mut pts: Vec<(i32, i32)> = (0..np)
            .map(|_| {
                if big {
                    (*rng.pick(&bvals), *rng.pick(&bvals))
                } else if kind == CoordKind::F32 {
                    (rng.range(-100_000, 100_000) as i32, rng.range(-100_000, 100_000) as i32)
                } else {
                    (rng.range(-70_000, 70_000) as i32, rng.range(-70_000, 70_000) as i32)
                }
            })
            .collect();
        // malformations
        match rng.below(12) {
            0 if !contours.is_empty() => {
                // end point out of order / out of range
                let i = rng.below(contours.len() as u64) as usize;
                contours[i] = *rng.pick(&[0u16, 1, (np as u16).wrapping_sub(0), np as u16 + 1, 65535]);
                s.count("tp:contour-mutated");
            }
            1 if !flags.is_empty() => {
                let k = rng.below(flags.len() as u64) as usize;
                flags.truncate(k);
                s.count("tp:flags-short");
            }
            2 => {
                flags.push(1);
                s.count("tp:flags-long");
            }
            3 if !pts.is_empty() => {
                let k = rng.below(pts.len() as u64) as usize;
                pts.truncate(k);
                s.count("tp:points-short");
            }
            4 if !contours.is_empty() => {
                // duplicate an end point (empty / reversed range)
                let i = rng.below(contours.len() as u64) as usize;
                let v = contours[i];
                contours.insert(i, v);
                s.count("tp:contour-dup");
            }
            _ => {}
        }
        let (resp, cmds, ok) = match catch(|| run_to_path(kind, style, &pts, &flags, &contours)) {
            Ok(r) => r,
            Err(_) => ("trap".to_string(), vec![], false),
        };
        let kind_n = if kind == CoordKind::F32 { 1 } else { 0 };
        let style_n = if matches!(style, PathStyle::FreeType) { 0 } else { 1 };
        let mult = if kind == CoordKind::F32 { 2i64 } else { 1 };
        let mut req = format!("tp {kind_n} {style_n} {} {} {}", pts.len(), flags.len(), contours.len());
        for (x, y) in &pts {
            req.push_str(&format!(" {} {}", *x as i64 * mult, *y as i64 * mult));
        }
        for f in &flags {
            // PointFlags::from_bits masks to the curve bits
            req.push_str(&format!(" {}", f & 0x81));
        }
        for c in &contours {
            req.push_str(&format!(" {c}"));
        }
        let input = req.clone();
        s.case("to_path", req, resp.clone());
        s.count(if ok { "tp:ok" } else { "tp:err" });
        s.oracle("to_path.no_panic", resp != "trap", || input.clone(), || "to_path panicked".to_string());
        if let Some(e) = resp.rsplit(' ').next() {
            if e.starts_with("err:") {
                let k: Vec<&str> = e.split(':').collect();
                s.count(&format!("tp:{}", k[1]));
            }
        }
        if it < 4 {
            s.count("tp:first");
        }
        if ok {
            s.oracle("to_path.grammar", well_formed(&cmds), || input.clone(), || render_bits(&cmds));
            s.oracle("to_path.finite", all_finite(&cmds), || input.clone(), || render_bits(&cmds));
            for c in &cmds {
                s.count(&format!("tp:cmd:{}", c.letter()));
            }
        } else {
            // the partial stream is still finite
            s.oracle("to_path.finite", all_finite(&cmds), || input.clone(), || render_bits(&cmds));
        }
    }
}

// ---------------------------------------------------------------------------------------------
// part B: carving

fn counts_args(c: &OutlineCounts) -> String {
    format!(
        "{} {} {} {} {} {} {} {} {} {} {}",
        c.points,
        c.contours,
        c.max_simple_points,
        c.max_other_points,
        c.max_component_delta_stack,
        c.max_stack,
        c.cvt_count,
        c.storage_count,
        c.max_twilight_points,
        c.has_hinting as u8,
        c.has_variations as u8
    )
}

fn render_layout(l: &Option<Vec<verif_hooks::SliceLayout>>) -> String {
    match l {
        None => "none".into(),
        Some(v) => v.iter().map(|(n, off, len, sz)| format!("{n}:{off}:{len}:{sz}")).collect::<Vec<_>>().join(" "),
    }
}

/// property oracle on a carved layout: right lengths are checked by correspondence; here: inside the
/// buffer, aligned to the element type, pairwise disjoint
fn layout_good(l: &[verif_hooks::SliceLayout], base_off: usize, len: usize) -> Result<(), String> {
    let mut spans: Vec<(usize, usize, &str)> = vec![];
    for (n, off, cnt, sz) in l {
        if *cnt == 0 {
            continue;
        }
        let align = match *sz {
            8 | 4 => 4,
            2 => 2,
            _ => 1,
        };
        if off + cnt * sz > len {
            return Err(format!("{n} ends at {} > len {len}", off + cnt * sz));
        }
        if (base_off + off) % align != 0 {
            return Err(format!("{n} misaligned: base%16={base_off} off={off} align={align}"));
        }
        spans.push((*off, off + cnt * sz, n));
    }
    spans.sort();
    for w in spans.windows(2) {
        if w[0].1 > w[1].0 {
            return Err(format!("{} [{}..{}) overlaps {} [{}..{})", w[0].2, w[0].0, w[0].1, w[1].2, w[1].0, w[1].1));
        }
    }
    Ok(())
}

/// a byte buffer whose first byte sits at an address ≡ `off` (mod 16)
struct OffsetBuf {
    store: Vec<u8>,
    start: usize,
    len: usize,
}
impl OffsetBuf {
    fn new(off: usize, len: usize) -> Self {
        let store = vec![0xA5u8; len + 48];
        let addr = store.as_ptr() as usize;
        let start = ((16 - addr % 16) % 16) + off;
        OffsetBuf { store, start, len }
    }
    fn slice(&mut self) -> &mut [u8] {
        &mut self.store[self.start..self.start + self.len]
    }
}

fn expected_size(c: &OutlineCounts, emb: bool) -> usize {
    // independent restatement of the payload (not the code's formula): sum over the carved slices
    let hinted = c.has_hinting && emb;
    let mut t = c.points * 8 + c.max_other_points * 8 + c.contours * 2 + c.points;
    if hinted {
        t += c.max_other_points * 8 + c.max_stack * 4 + c.cvt_count * 4 + c.storage_count * 4 + c.max_twilight_points * 17;
    }
    if c.has_variations {
        t += c.max_simple_points * 16 + c.max_component_delta_stack * 8;
    }
    t
}

fn part_carve(cfg: &Config, s: &mut Session, rng: &mut Rng) {
    let n = if cfg.thorough() { 2_000_000 } else { 200_000 };
    for _ in 0..n {
        let small = |rng: &mut Rng| -> usize {
            match rng.below(8) {
                0 | 1 => 0,
                2 => 1,
                3 => 4,
                _ => rng.below(40) as usize,
            }
        };
        let plausible = rng.chance(2, 3);
        let mut c = OutlineCounts {
            points: small(rng),
            contours: small(rng),
            max_simple_points: small(rng),
            max_other_points: small(rng),
            max_component_delta_stack: small(rng),
            max_stack: small(rng),
            cvt_count: small(rng),
            storage_count: small(rng),
            max_twilight_points: small(rng),
            has_hinting: rng.chance(1, 2),
            has_variations: rng.chance(1, 2),
        };
        if plausible {
            // what Outlines::outline can produce: 4 phantom points always; simple glyph reached ⇒ other ≥ 4
            c.points += 4;
            if c.points > 4 && c.max_other_points == 0 {
                c.max_other_points = 4 + rng.below(10) as usize;
            }
            if c.points == 4 {
                c.contours = 0;
                c.max_simple_points = 0;
            }
        }
        let emb = rng.chance(1, 2);
        let adv = verif_hooks::required_buffer_size(c, emb);
        s.case("carve.size", format!("carve.size {} {}", emb as u8, counts_args(&c)), adv.to_string());
        let payload = expected_size(&c, emb);
        s.oracle(
            "carve.size.covers_payload",
            adv >= payload && (payload == 0 || adv >= payload + 3),
            || format!("emb={emb} {}", counts_args(&c)),
            || format!("advertised {adv} payload {payload}"),
        );
        let off = rng.below(16) as usize;
        let len = match rng.below(10) {
            0 => adv.saturating_sub(1 + rng.below(8) as usize),
            1 => adv + rng.below(9) as usize,
            2 => rng.below(adv as u64 + 1) as usize,
            3 => payload,
            _ => adv,
        };
        let hb = rng.chance(1, 3);
        let mut buf = OffsetBuf::new(off, len);
        if hb {
            let l = catch(|| verif_hooks::harfbuzz_memory_layout(c, buf.slice()));
            let resp = match &l {
                Ok(l) => render_layout(l),
                Err(_) => "trap".into(),
            };
            s.case("carve.hb", format!("carve.hb {off} {len} {}", counts_args(&c)), resp.clone());
            s.count(if resp == "none" { "carve.hb:none" } else { "carve.hb:some" });
            let adv_hb = verif_hooks::required_buffer_size(c, false);
            let input = || format!("hb off={off} len={len} {}", counts_args(&c));
            if let Ok(Some(l)) = &l {
                let g = layout_good(l, off, len);
                s.oracle("carve.hb.layout", g.is_ok(), input, || g.clone().unwrap_err());
            }
            if len >= adv_hb && (plausible || c.max_other_points >= 1 || !c.has_variations) {
                s.oracle("carve.hb.sufficient", matches!(l, Ok(Some(_))), input, || resp.clone());
            } else if len >= adv_hb {
                s.count(if matches!(l, Ok(Some(_))) { "carve.hb:implausible-ok" } else { "carve.hb:implausible-none" });
            }
        } else {
            let l = catch(|| verif_hooks::freetype_memory_layout(c, buf.slice(), emb));
            let resp = match &l {
                Ok(l) => render_layout(l),
                Err(_) => "trap".into(),
            };
            s.case("carve.ft", format!("carve.ft {} {off} {len} {}", emb as u8, counts_args(&c)), resp.clone());
            s.count(if resp == "none" { "carve.ft:none" } else { "carve.ft:some" });
            let input = || format!("ft emb={emb} off={off} len={len} {}", counts_args(&c));
            if let Ok(Some(l)) = &l {
                let g = layout_good(l, off, len);
                s.oracle("carve.ft.layout", g.is_ok(), input, || g.clone().unwrap_err());
            }
            if len >= adv {
                s.oracle("carve.ft.sufficient", matches!(l, Ok(Some(_))), input, || resp.clone());
            }
            if len < payload {
                s.oracle("carve.ft.small_is_none", matches!(l, Ok(None)), input, || resp.clone());
            }
        }
    }
}

// ---------------------------------------------------------------------------------------------
// part C: whole draws on fonts

#[derive(Clone, PartialEq)]
struct DrawOut {
    result: String,
    cmds: String,
    ok: bool,
    wf: bool,
    finite: bool,
    n_cmds: usize,
}

fn render_result(r: &Result<skrifa::outline::AdjustedMetrics, DrawError>) -> String {
    match r {
        Ok(m) => format!(
            "ok overlaps={} lsb={:?} adv={:?}",
            m.has_overlaps,
            m.lsb.map(|v| v.to_bits()),
            m.advance_width.map(|v| v.to_bits())
        ),
        Err(e) => format!("err {e:?}"),
    }
}

fn finish_draw(r: Result<Result<skrifa::outline::AdjustedMetrics, DrawError>, String>, pen: RecPen) -> DrawOut {
    match r {
        Ok(r) => DrawOut {
            result: render_result(&r),
            cmds: render_bits(&pen.0),
            ok: r.is_ok(),
            wf: well_formed(&pen.0),
            finite: all_finite(&pen.0)
                && r.as_ref().map(|m| m.lsb.map_or(true, |v| v.is_finite()) && m.advance_width.map_or(true, |v| v.is_finite())).unwrap_or(true),
            n_cmds: pen.0.len(),
        },
        Err(p) => DrawOut { result: format!("panic {p}"), cmds: render_bits(&pen.0), ok: false, wf: false, finite: false, n_cmds: 0 },
    }
}

#[derive(Clone, Copy)]
enum Mem {
    Library,
    /// caller buffer: address offset (mod 16), length
    Caller(usize, usize),
}

fn draw_unhinted(g: &OutlineGlyph, size: Size, loc: LocationRef, style: PathStyle, mem: Mem) -> DrawOut {
    let mut pen = RecPen::default();
    let r = catch(|| match mem {
        Mem::Library => g.draw(DrawSettings::unhinted(size, loc).with_path_style(style), &mut pen),
        Mem::Caller(off, len) => {
            let mut b = OffsetBuf::new(off, len);
            g.draw(DrawSettings::unhinted(size, loc).with_path_style(style).with_memory(Some(b.slice())), &mut pen)
        }
    });
    finish_draw(r, pen)
}

fn draw_hinted(g: &OutlineGlyph, inst: &HintingInstance, pedantic: bool, mem: Mem) -> DrawOut {
    let mut pen = RecPen::default();
    let r = catch(|| match mem {
        Mem::Library => g.draw(DrawSettings::hinted(inst, pedantic), &mut pen),
        Mem::Caller(off, len) => {
            let mut b = OffsetBuf::new(off, len);
            g.draw(DrawSettings::hinted(inst, pedantic).with_memory(Some(b.slice())), &mut pen)
        }
    });
    finish_draw(r, pen)
}

fn size_name(s: Size) -> String {
    match s.ppem() {
        None => "unscaled".into(),
        Some(p) => format!("{p}"),
    }
}

fn coords_name(c: &[F2Dot14]) -> String {
    if c.is_empty() {
        "-".into()
    } else {
        c.iter().map(|v| v.to_bits().to_string()).collect::<Vec<_>>().join(",")
    }
}

struct FontCase {
    name: String,
    data: Vec<u8>,
}

fn load_fonts() -> Vec<FontCase> {
    let dir = "/repo/font-test-data/test_data/ttf";
    let mut names: Vec<String> = std::fs::read_dir(dir)
        .map(|d| d.filter_map(|e| e.ok()).map(|e| e.file_name().to_string_lossy().to_string()).collect())
        .unwrap_or_default();
    names.sort();
    let mut out = vec![];
    for n in names {
        if !(n.ends_with(".ttf") || n.ends_with(".otf")) {
            continue;
        }
        if let Ok(data) = std::fs::read(format!("{dir}/{n}")) {
            if FontRef::new(&data).is_ok() {
                out.push(FontCase { name: n, data });
            }
        }
    }
    out
}

fn random_coords(rng: &mut Rng, n: usize) -> Vec<F2Dot14> {
    (0..n)
        .map(|_| {
            F2Dot14::from_bits(match rng.below(6) {
                0 => 16384,
                1 => -16384,
                2 => 0,
                3 => 8192,
                _ => rng.range(-16384, 16384) as i16,
            })
        })
        .collect()
}

fn hint_options(rng: &mut Rng) -> (HintingOptions, String) {
    let engine_n = rng.below(3);
    let target_n = rng.below(6);
    (options_from(engine_n, target_n), format!("e{engine_n}t{target_n}"))
}

fn options_from(engine_n: u64, target_n: u64) -> HintingOptions {
    let engine = match engine_n {
        0 => Engine::Interpreter,
        1 => Engine::Auto(None),
        _ => Engine::AutoFallback,
    };
    let target = match target_n {
        0 => Target::Mono,
        1 => Target::Smooth { mode: SmoothMode::Normal, symmetric_rendering: true, preserve_linear_metrics: false },
        2 => Target::Smooth { mode: SmoothMode::Light, symmetric_rendering: true, preserve_linear_metrics: false },
        3 => Target::Smooth { mode: SmoothMode::Lcd, symmetric_rendering: false, preserve_linear_metrics: false },
        4 => Target::Smooth { mode: SmoothMode::VerticalLcd, symmetric_rendering: true, preserve_linear_metrics: true },
        _ => Target::Smooth { mode: SmoothMode::Normal, symmetric_rendering: false, preserve_linear_metrics: true },
    };
    HintingOptions { engine, target }
}

fn pick_size(rng: &mut Rng) -> Size {
    match rng.below(8) {
        0 => Size::unscaled(),
        1 => Size::new(8.0),
        2 => Size::new(12.0),
        3 => Size::new(16.0),
        4 => Size::new(37.5),
        5 => Size::new(100.0),
        6 => Size::new(1.0),
        _ => Size::new((rng.below(6000) as f32) / 64.0 + 4.0),
    }
}

fn glyph_sample(rng: &mut Rng, n_glyphs: u32, cap: usize) -> Vec<u32> {
    if n_glyphs as usize <= cap {
        return (0..n_glyphs).collect();
    }
    let mut v: Vec<u32> = (0..(cap as u32 / 2)).collect();
    while v.len() < cap {
        let g = rng.below(n_glyphs as u64) as u32;
        if !v.contains(&g) {
            v.push(g);
        }
    }
    v
}

fn part_fonts(cfg: &Config, s: &mut Session, rng: &mut Rng) {
    let fonts = load_fonts();
    let refs: Vec<FontRef> = fonts.iter().map(|f| FontRef::new(&f.data).unwrap()).collect();
    let collections: Vec<OutlineGlyphCollection> = refs.iter().map(|f| f.outline_glyphs()).collect();
    let configs_per_font = if cfg.thorough() { 40 } else { 8 };
    for (fi, font) in refs.iter().enumerate() {
        let n_glyphs = font.maxp().map(|m| m.num_glyphs() as u32).unwrap_or(0);
        let axis_count = font.axes().len();
        let is_glyf = font.glyf().is_ok() && font.loca(None).is_ok();
        font_battery(cfg, s, rng, &fonts[fi].name, &collections[fi], n_glyphs, axis_count, is_glyf, &collections, configs_per_font, false);
    }
}

/// the whole oracle battery on one font; `pool` = fonts a reused instance may have seen before
#[allow(clippy::too_many_arguments)]
fn font_battery(
    cfg: &Config,
    s: &mut Session,
    rng: &mut Rng,
    name: &str,
    outlines: &OutlineGlyphCollection,
    n_glyphs: u32,
    axis_count: usize,
    is_glyf: bool,
    pool: &[OutlineGlyphCollection],
    configs_per_font: usize,
    synth: bool,
) {
    let cap = if cfg.thorough() { 600 } else { 150 };
    let tag = if synth { "synth" } else { "fonts" };
    {
        if outlines.get(GlyphId::new(0)).is_none() && n_glyphs > 0 && outlines.iter().next().is_none() {
            s.count(&format!("{tag}:no-outlines"));
            return;
        }
        s.count(&format!("{tag}:{}", if is_glyf { "glyf" } else { "cff" }));
        if axis_count > 0 {
            s.count(&format!("{tag}:variable"));
        }
        for ci in 0..configs_per_font {
            let gids = glyph_sample(rng, n_glyphs, cap);
            let size = if ci == 0 { Size::new(16.0) } else { pick_size(rng) };
            let coords: Vec<F2Dot14> = if axis_count > 0 && ci > 0 { random_coords(rng, axis_count) } else { vec![] };
            let zero_coords: Vec<F2Dot14> = vec![F2Dot14::ZERO; if axis_count > 0 { axis_count } else { 1 + rng.below(3) as usize }];
            let loc = LocationRef::new(&coords);
            let ctx = |gid: u32, what: &str| format!("font={name} gid={gid} size={} coords={} {what}", size_name(size), coords_name(&coords));

            // ---------------- unhinted -----------------
            for &gid in &gids {
                let Some(g) = outlines.get(GlyphId::new(gid)) else {
                    s.count("draw:no-glyph");
                    continue;
                };
                for style in [PathStyle::FreeType, PathStyle::HarfBuzz] {
                    let sn = if matches!(style, PathStyle::FreeType) { "ft" } else { "hb" };
                    let base = draw_unhinted(&g, size, loc, style, Mem::Library);
                    s.count(if base.ok { "draw:unhinted-ok" } else { "draw:unhinted-err" });
                    if base.ok && is_glyf {
                        s.oracle("draw.grammar", base.wf, || ctx(gid, sn), || base.cmds.clone());
                    }
                    if base.ok {
                        s.oracle("draw.finite", base.finite, || ctx(gid, sn), || format!("{} {}", base.result, base.cmds));
                    }
                    s.oracle("draw.no_panic", !base.result.starts_with("panic"), || ctx(gid, sn), || base.result.clone());
                    let again = draw_unhinted(&g, size, loc, style, Mem::Library);
                    s.oracle("draw.twice", again == base, || ctx(gid, sn), || format!("{} | {}", base.result, again.result));
                    // caller memory of exactly the advertised size at misaligned bases
                    let adv = g.draw_memory_size(skrifa::outline::Hinting::None);
                    let offs: Vec<usize> = if cfg.thorough() { (0..9).collect() } else { vec![0, 1 + rng.below(3) as usize, 4 + rng.below(5) as usize] };
                    for off in offs {
                        let m = draw_unhinted(&g, size, loc, style, Mem::Caller(off, adv));
                        s.oracle("draw.caller_memory", m == base, || ctx(gid, &format!("{sn} off={off} len={adv}")), || format!("{} | {}", base.result, m.result));
                    }
                    let m = draw_unhinted(&g, size, loc, style, Mem::Caller(rng.below(9) as usize, adv + 1 + rng.below(64) as usize));
                    s.oracle("draw.caller_memory", m == base, || ctx(gid, &format!("{sn} larger")), || format!("{} | {}", base.result, m.result));
                    if adv > 0 {
                        // too small: may fail, must not panic, and if it succeeds it must agree
                        let m = draw_unhinted(&g, size, loc, style, Mem::Caller(rng.below(9) as usize, adv - 1 - rng.below(adv.min(8) as u64) as usize));
                        s.oracle(
                            "draw.small_memory",
                            m == base || m.result.contains("InsufficientMemory"),
                            || ctx(gid, &format!("{sn} smaller")),
                            || format!("{} | {}", base.result, m.result),
                        );
                        s.count(if m == base { "draw:small-ok" } else { "draw:small-insufficient" });
                    }
                    // None vs all-zero location
                    if coords.is_empty() {
                        let z = draw_unhinted(&g, size, LocationRef::new(&zero_coords), style, Mem::Library);
                        s.oracle("draw.zero_location", z == base, || ctx(gid, &format!("{sn} zeros={}", zero_coords.len())), || format!("{} | {}", base.result, z.result));
                    }
                    // model tie for the advertised size on real glyph metrics
                    if let Some(c) = verif_hooks::outline_counts(&g) {
                        if matches!(style, PathStyle::FreeType) {
                            s.case("glyph.size", format!("carve.size 0 {}", counts_args(&c)), adv.to_string());
                            let adv_h = g.draw_memory_size(skrifa::outline::Hinting::Embedded);
                            s.case("glyph.size", format!("carve.size 1 {}", counts_args(&c)), adv_h.to_string());
                            // the invariant the HarfBuzz carve relies on
                            s.oracle(
                                "counts.other_points_invariant",
                                c.max_other_points >= 1 || (c.points == 4 && c.contours == 0 && c.max_simple_points == 0),
                                || ctx(gid, "counts"),
                                || counts_args(&c),
                            );
                        }
                    }
                }
            }

            // ---------------- hinted -----------------
            let (opts, on) = if ci == 0 { (options_from(0, 1), "e0t1".to_string()) } else if synth { let t = rng.below(6); (options_from(0, t), format!("e0t{t}")) } else { hint_options(rng) };
            let fresh = catch(|| HintingInstance::new(outlines, size, loc, opts.clone()));
            let fresh = match fresh {
                Ok(Ok(i)) => i,
                Ok(Err(e)) => {
                    s.count("hint:new-err");
                    // a reused instance must fail the same way
                    let mut dirty = dirty_instance(rng, pool, synth);
                    if let Some(d) = dirty.as_mut() {
                        let r = catch(|| d.reconfigure(outlines, size, loc, opts.clone()));
                        let same = matches!(&r, Ok(Err(e2)) if format!("{e2:?}") == format!("{e:?}"));
                        s.oracle("hint.reconfigure_error_same", same, || ctx(0, &on), || format!("{e:?} vs {:?}", r.map(|x| x.map_err(|e| format!("{e:?}")))));
                    }
                    continue;
                }
                Err(p) => {
                    s.oracle("draw.no_panic", false, || ctx(0, &format!("HintingInstance::new {on}")), || p.clone());
                    continue;
                }
            };
            s.count(if fresh.is_enabled() { "hint:enabled" } else { "hint:disabled" });
            let fresh_state = fresh.verif_state();
            // effective coords observed through the instance
            {
                let got: Vec<i64> = fresh.location().coords().iter().map(|c| c.to_bits() as i64).collect();
                let req = format!("eff {}", if coords.is_empty() { "".to_string() } else { coords.iter().map(|c| c.to_bits().to_string()).collect::<Vec<_>>().join(" ") });
                s.case("eff", req.trim_end().to_string(), join(&got));
            }
            // reused instance: configured for other fonts / sizes / locations / modes before
            let mut reused_ok = None;
            for _ in 0..(if cfg.thorough() { 3 } else { 1 }) {
                if let Some(mut d) = dirty_instance(rng, pool, synth) {
                    let r = catch(|| d.reconfigure(outlines, size, loc, opts.clone()));
                    match r {
                        Ok(Ok(())) => {
                            let st = d.verif_state();
                            s.oracle("hint.reconfigure_state", st == fresh_state, || ctx(0, &on), || diff_hint(&fresh_state, &st));
                            reused_ok = Some(d);
                        }
                        other => {
                            s.oracle("hint.reconfigure_state", false, || ctx(0, &on), || format!("fresh ok, reused {:?}", other.map(|x| x.map_err(|e| format!("{e:?}")))));
                        }
                    }
                }
            }
            // all-zero location instance
            let zero_inst = if coords.is_empty() {
                match catch(|| HintingInstance::new(outlines, size, LocationRef::new(&zero_coords), opts.clone())) {
                    Ok(Ok(z)) => {
                        s.oracle("hint.zero_location_state", z.verif_state() == fresh_state, || ctx(0, &on), || diff_hint(&fresh_state, &z.verif_state()));
                        Some(z)
                    }
                    other => {
                        s.oracle("hint.zero_location_state", false, || ctx(0, &on), || format!("{:?}", other.map(|x| x.map(|_| ()).map_err(|e| format!("{e:?}")))));
                        None
                    }
                }
            } else {
                None
            };
            let pedantic = rng.chance(1, 4);
            let mut base_outs: Vec<(u32, DrawOut)> = vec![];
            for &gid in &gids {
                let Some(g) = outlines.get(GlyphId::new(gid)) else { continue };
                let base = draw_hinted(&g, &fresh, pedantic, Mem::Library);
                s.count(if base.ok { "draw:hinted-ok" } else { "draw:hinted-err" });
                let hctx = |what: &str| ctx(gid, &format!("hinted {on} pedantic={pedantic} {what}"));
                if base.ok && is_glyf {
                    s.oracle("draw.grammar", base.wf, || hctx(""), || base.cmds.clone());
                }
                if base.ok {
                    s.oracle("draw.finite", base.finite, || hctx(""), || format!("{} {}", base.result, base.cmds));
                }
                s.oracle("draw.no_panic", !base.result.starts_with("panic"), || hctx(""), || base.result.clone());
                let again = draw_hinted(&g, &fresh, pedantic, Mem::Library);
                s.oracle("draw.twice", again == base, || hctx(""), || format!("{} | {}", base.result, again.result));
                let adv = g.draw_memory_size(skrifa::outline::Hinting::Embedded);
                let offs: Vec<usize> = if cfg.thorough() { (0..9).collect() } else { vec![0, 1 + rng.below(3) as usize, 4 + rng.below(5) as usize] };
                for off in offs {
                    let m = draw_hinted(&g, &fresh, pedantic, Mem::Caller(off, adv));
                    s.oracle("draw.caller_memory", m == base, || hctx(&format!("off={off} len={adv}")), || format!("{} | {}", base.result, m.result));
                }
                if let Some(d) = &reused_ok {
                    let m = draw_hinted(&g, d, pedantic, Mem::Library);
                    s.oracle("draw.reused_instance", m == base, || hctx("reused"), || format!("{} | {}", base.result, m.result));
                }
                if let Some(z) = &zero_inst {
                    let m = draw_hinted(&g, z, pedantic, Mem::Library);
                    s.oracle("draw.zero_location", m == base, || hctx("zeros"), || format!("{} | {}", base.result, m.result));
                }
                base_outs.push((gid, base));
            }
            // drawing does not write to the instance
            s.oracle("hint.draw_leaves_state", fresh.verif_state() == fresh_state, || ctx(0, &on), || diff_hint(&fresh_state, &fresh.verif_state()));
            // a second fresh instance, used in reverse glyph order (lazily computed state must not
            // depend on what was drawn first)
            if let Ok(Ok(second)) = catch(|| HintingInstance::new(outlines, size, loc, opts.clone())) {
                for (gid, base) in base_outs.iter().rev() {
                    let Some(g) = outlines.get(GlyphId::new(*gid)) else { continue };
                    let m = draw_hinted(&g, &second, pedantic, Mem::Library);
                    s.oracle("draw.order", &m == base, || ctx(*gid, &format!("hinted {on} reverse-order")), || format!("{} | {}", base.result, m.result));
                }
            }
            // concurrent draws through the shared instance
            let n_threads = if cfg.thorough() { 16 } else { 6 };
            let mut third = match catch(|| HintingInstance::new(outlines, size, loc, opts.clone())) {
                Ok(Ok(t)) => t,
                _ => continue,
            };
            let _ = &mut third;
            let shared = &third;
            let results: Vec<Vec<(u32, DrawOut)>> = std::thread::scope(|sc| {
                let handles: Vec<_> = (0..n_threads)
                    .map(|t| {
                        let base_outs = &base_outs;
                        sc.spawn(move || {
                            let mut out = vec![];
                            let n = base_outs.len();
                            for k in 0..n {
                                // each thread walks the glyphs in a different rotation / direction
                                let idx = if t % 2 == 0 { (k + t * 7) % n } else { (n - 1 - k + t * 5) % n };
                                let gid = base_outs[idx].0;
                                if let Some(g) = outlines.get(GlyphId::new(gid)) {
                                    out.push((idx as u32, draw_hinted(&g, shared, pedantic, Mem::Library)));
                                }
                            }
                            out
                        })
                    })
                    .collect();
                handles.into_iter().map(|h| h.join().unwrap_or_default()).collect()
            });
            for (t, r) in results.iter().enumerate() {
                for (idx, m) in r {
                    let (gid, base) = &base_outs[*idx as usize];
                    s.oracle("draw.threads", m == base, || ctx(*gid, &format!("hinted {on} thread={t}")), || format!("{} | {}", base.result, m.result));
                }
            }
        }
    }
}

// ---------------------------------------------------------------------------------------------
// part D: synthetic fonts (hand-encoded glyf/loca, optional empty gvar, fpgm/prep/cvt)

#[derive(Clone)]
enum SGlyph {
    Empty,
    /// contours given as point counts; instructions
    Simple { contours: Vec<usize>, instr: Vec<u8> },
    /// component glyph ids; `Some(instr)` sets WE_HAVE_INSTRUCTIONS; `anchors[i] = Some((base, component))`
    /// positions component i by matching points instead of by an offset
    Composite { comps: Vec<u16>, instr: Option<Vec<u8>>, anchors: Vec<Option<(u8, u8)>> },
}

struct SFont {
    glyphs: Vec<SGlyph>,
    gvar_axes: Option<u16>,
    fpgm: Vec<u8>,
    prep: Vec<u8>,
    cvt: Vec<i16>,
    max_storage: u16,
    max_twilight: u16,
    max_funcs: u16,
    max_idefs: u16,
    max_stack: u16,
}

fn be16(v: &mut Vec<u8>, x: i32) {
    v.extend_from_slice(&(x as u16).to_be_bytes());
}

fn encode_glyph(gid: usize, g: &SGlyph) -> Vec<u8> {
    let mut v = vec![];
    match g {
        SGlyph::Empty => {}
        SGlyph::Simple { contours, instr } => {
            be16(&mut v, contours.len() as i32);
            for b in [0, 0, 1000, 1000] {
                be16(&mut v, b);
            }
            let mut end = 0usize;
            for c in contours {
                end += c;
                be16(&mut v, end as i32 - 1);
            }
            be16(&mut v, instr.len() as i32);
            v.extend_from_slice(instr);
            let np = end;
            for i in 0..np {
                // alternate on/off curve a little, depending on the glyph
                v.push(if (i + gid) % 3 == 2 { 0x00 } else { 0x01 });
            }
            for i in 0..np {
                be16(&mut v, if i == 0 { 100 } else { [120, -40, 65, 30][(i + gid) % 4] });
            }
            for i in 0..np {
                be16(&mut v, if i == 0 { 50 } else { [35, 110, -20, -75][(i + 2 * gid) % 4] });
            }
        }
        SGlyph::Composite { comps, instr, anchors } => {
            be16(&mut v, -1);
            for b in [0, 0, 1000, 1000] {
                be16(&mut v, b);
            }
            for (i, c) in comps.iter().enumerate() {
                let last = i + 1 == comps.len();
                let anchor = anchors.get(i).copied().flatten();
                let mut flags = 0x0001 | 0x0002; // words, xy values
                if anchor.is_some() {
                    flags = 0x0001; // words, point numbers
                }
                if !last {
                    flags |= 0x0020;
                } else if instr.is_some() {
                    flags |= 0x0100;
                }
                be16(&mut v, flags);
                be16(&mut v, *c as i32);
                if let Some((base, comp)) = anchor {
                    be16(&mut v, base as i32);
                    be16(&mut v, comp as i32);
                } else {
                    be16(&mut v, 30 * i as i32);
                    be16(&mut v, -20 * i as i32);
                }
            }
            if let Some(ins) = instr {
                be16(&mut v, ins.len() as i32);
                v.extend_from_slice(ins);
            }
        }
    }
    if v.len() % 2 == 1 {
        v.push(0);
    }
    v
}

fn build_sfont(f: &SFont) -> Vec<u8> {
    use read_fonts::types::Tag;
    use write_fonts::tables::{head::Head, hhea::Hhea, hmtx::Hmtx, hmtx::LongMetric, maxp::Maxp};
    let n = f.glyphs.len();
    let mut glyf = vec![];
    let mut loca = vec![];
    for (gid, g) in f.glyphs.iter().enumerate() {
        loca.extend_from_slice(&(glyf.len() as u32).to_be_bytes());
        glyf.extend_from_slice(&encode_glyph(gid, g));
    }
    loca.extend_from_slice(&(glyf.len() as u32).to_be_bytes());
    if glyf.is_empty() {
        glyf.push(0);
    }
    let head = Head { units_per_em: 1000, index_to_loc_format: 1, ..Default::default() };
    let maxp = Maxp {
        num_glyphs: n as u16,
        max_points: Some(64),
        max_contours: Some(8),
        max_composite_points: Some(256),
        max_composite_contours: Some(32),
        max_zones: Some(2),
        max_twilight_points: Some(f.max_twilight),
        max_storage: Some(f.max_storage),
        max_function_defs: Some(f.max_funcs),
        max_instruction_defs: Some(f.max_idefs),
        max_stack_elements: Some(f.max_stack),
        max_size_of_instructions: Some(256),
        max_component_elements: Some(8),
        max_component_depth: Some(8),
    };
    let hhea = Hhea { number_of_h_metrics: n as u16, ..Default::default() };
    let hmtx = Hmtx::new((0..n).map(|i| LongMetric::new(500 + 10 * i as u16, 7)).collect(), vec![]);
    let mut fb = write_fonts::FontBuilder::new();
    fb.add_table(&head).unwrap();
    fb.add_table(&maxp).unwrap();
    fb.add_table(&hhea).unwrap();
    fb.add_table(&hmtx).unwrap();
    fb.add_raw(Tag::new(b"glyf"), glyf);
    fb.add_raw(Tag::new(b"loca"), loca);
    if !f.fpgm.is_empty() {
        fb.add_raw(Tag::new(b"fpgm"), f.fpgm.clone());
    }
    if !f.prep.is_empty() {
        fb.add_raw(Tag::new(b"prep"), f.prep.clone());
    }
    if !f.cvt.is_empty() {
        fb.add_raw(Tag::new(b"cvt "), f.cvt.iter().flat_map(|v| v.to_be_bytes()).collect::<Vec<u8>>());
    }
    if let Some(axes) = f.gvar_axes {
        // a gvar table without any variation data
        let mut g = vec![];
        be16(&mut g, 1);
        be16(&mut g, 0);
        be16(&mut g, axes as i32);
        be16(&mut g, 0);
        let data_off = 20 + 2 * (n as u32 + 1);
        g.extend_from_slice(&data_off.to_be_bytes());
        be16(&mut g, n as i32);
        be16(&mut g, 0);
        g.extend_from_slice(&data_off.to_be_bytes());
        for _ in 0..=n {
            be16(&mut g, 0);
        }
        fb.add_raw(Tag::new(b"gvar"), g);
    }
    fb.build()
}

/// expand the glyph reference graph below `gid` into the prefix encoding of the `counts` request
/// (`None` if the expansion is too large).  Below recursion depth 34 nothing is looked at any more.
fn expand_tree(f: &SFont, gid: usize, depth: usize, out: &mut Vec<i64>, budget: &mut i64) -> Option<()> {
    *budget -= 1;
    if *budget < 0 {
        return None;
    }
    if depth > 34 {
        out.push(2);
        return Some(());
    }
    match f.glyphs.get(gid) {
        None | Some(SGlyph::Empty) => out.push(2),
        Some(SGlyph::Simple { contours, instr }) => {
            out.extend_from_slice(&[0, contours.iter().sum::<usize>() as i64, contours.len() as i64, (!instr.is_empty()) as i64]);
        }
        Some(SGlyph::Composite { comps, instr, .. }) => {
            out.extend_from_slice(&[1, comps.len() as i64, instr.as_ref().map_or(false, |i| !i.is_empty()) as i64]);
            for c in comps {
                expand_tree(f, *c as usize, depth + 1, out, budget)?;
            }
        }
    }
    Some(())
}

fn part_counts(cfg: &Config, s: &mut Session, rng: &mut Rng) {
    let n_fonts = if cfg.thorough() { 10000 } else { 1000 };
    for fi in 0..n_fonts {
        let n = 2 + rng.below(10) as usize;
        let mut glyphs: Vec<SGlyph> = vec![SGlyph::Empty];
        let cyclic = rng.chance(1, 6);
        for gid in 1..n {
            let g = match rng.below(10) {
                0 => SGlyph::Empty,
                1..=4 => {
                    let nc = rng.below(4) as usize;
                    SGlyph::Simple {
                        contours: (0..nc).map(|_| 1 + rng.below(6) as usize).collect(),
                        instr: if rng.chance(1, 3) { vec![0x4f] /* DEBUG: harmless no-op */ } else { vec![] },
                    }
                }
                _ => {
                    let k = 1 + rng.below(4) as usize;
                    let comps: Vec<u16> = (0..k)
                        .map(|_| {
                            if cyclic && rng.chance(1, 3) {
                                rng.below(n as u64) as u16 // may point at itself or forward
                            } else {
                                rng.below(gid as u64) as u16 // earlier glyph: acyclic
                            }
                        })
                        .collect();
                    // sometimes position components by matching points: indices inside and outside of
                    // what has been loaded when the component is placed
                    let anchors: Vec<Option<(u8, u8)>> = if rng.chance(1, 3) {
                        (0..k).map(|_| if rng.chance(1, 2) { Some((rng.below(14) as u8, rng.below(9) as u8)) } else { None }).collect()
                    } else {
                        vec![]
                    };
                    SGlyph::Composite { comps, instr: if rng.chance(1, 3) { Some(vec![0x4f]) } else if rng.chance(1, 8) { Some(vec![]) } else { None }, anchors }
                }
            };
            glyphs.push(g);
        }
        let f = SFont {
            glyphs,
            gvar_axes: if rng.chance(1, 2) { Some(1 + rng.below(3) as u16) } else { None },
            fpgm: vec![],
            prep: vec![],
            cvt: (0..rng.below(5)).map(|i| i as i16 * 10).collect(),
            max_storage: rng.below(6) as u16,
            max_twilight: rng.below(6) as u16,
            max_funcs: rng.below(4) as u16,
            max_idefs: rng.below(3) as u16,
            max_stack: 8 + rng.below(40) as u16,
        };
        let data = build_sfont(&f);
        let Ok(font) = FontRef::new(&data) else {
            s.count("counts:font-unreadable");
            continue;
        };
        let outlines = font.outline_glyphs();
        for gid in 0..n {
            let mut toks: Vec<i64> = vec![];
            let mut budget = 4000i64;
            if expand_tree(&f, gid, 0, &mut toks, &mut budget).is_none() {
                s.count("counts:too-large");
                continue;
            }
            let got = match catch(|| outlines.get(GlyphId::new(gid as u32))) {
                Ok(Some(g)) => match verif_hooks::outline_counts(&g) {
                    Some(c) => counts_args(&c),
                    None => "not-glyf".into(),
                },
                Ok(None) => "err:RecursionLimitExceeded".into(),
                Err(_) => "trap".into(),
            };
            s.count(if got.starts_with("err") { "counts:recursion" } else { "counts:ok" });
            let req = format!(
                "counts {} {} {} {} {} {}",
                f.max_stack,
                f.cvt.len(),
                f.max_storage,
                f.max_twilight,
                f.gvar_axes.is_some() as u8,
                join(&toks)
            );
            s.case("counts", req, got);
        }
        // the draw battery on a few of these fonts (composites with/without instructions, empty gvar)
        if fi % 10 == 0 {
            let pool = [outlines.clone()];
            font_battery(cfg, s, rng, &format!("synth-tree-{fi}"), &outlines, n as u32, f.gvar_axes.unwrap_or(0) as usize, true, &pool, 2, true);
        }
    }
}

// ---- fonts whose hinting programs make every piece of instance state visible in the outline ----

mod op {
    pub const SVTCA_Y: u8 = 0x00;
    pub const SZP2: u8 = 0x15;
    pub const SZPS: u8 = 0x16;
    pub const CALL: u8 = 0x2B;
    pub const FDEF: u8 = 0x2C;
    pub const ENDF: u8 = 0x2D;
    pub const WS: u8 = 0x42;
    pub const RS: u8 = 0x43;
    pub const WCVTP: u8 = 0x44;
    pub const RCVT: u8 = 0x45;
    pub const GC0: u8 = 0x46;
    pub const SCFS: u8 = 0x48;
    pub const MPPEM: u8 = 0x4B;
    pub const LT: u8 = 0x50;
    pub const IF: u8 = 0x58;
    pub const EIF: u8 = 0x59;
    pub const IDEF: u8 = 0x89;
    pub const ADD: u8 = 0x60;
    /// an opcode without built-in meaning, used for instruction definitions
    pub const CUSTOM: u8 = 0xA5;
    pub const CUSTOM2: u8 = 0xA6;
}

fn pushw(v: &mut Vec<u8>, xs: &[i32]) {
    assert!(!xs.is_empty() && xs.len() <= 8);
    v.push(0xB8 + (xs.len() as u8 - 1));
    for x in xs {
        v.extend_from_slice(&(*x as i16).to_be_bytes());
    }
}

/// a font of the family: which slots its font/prep programs write is decided by `sig`
fn state_font(rng: &mut Rng, sig: u64) -> SFont {
    use op::*;
    let bit = |k: u64| (sig >> k) & 1 == 1;
    let n_slots = 4usize;
    let mut fpgm = vec![];
    // function 0 always exists (pushes a font specific constant); functions 1..3 depend on sig
    for fnum in 0..4i32 {
        if fnum == 0 || bit(fnum as u64) {
            pushw(&mut fpgm, &[fnum]);
            fpgm.push(FDEF);
            pushw(&mut fpgm, &[64 * (1 + fnum) + (sig % 50) as i32]);
            fpgm.push(ENDF);
        }
    }
    // instruction definitions
    for (k, opc) in [(4u64, CUSTOM), (5u64, CUSTOM2)] {
        if bit(k) {
            pushw(&mut fpgm, &[opc as i32]);
            fpgm.push(IDEF);
            pushw(&mut fpgm, &[500 + 64 * k as i32 + (sig % 31) as i32]);
            fpgm.push(ENDF);
        }
    }
    let mut prep = vec![];
    // storage writes
    for i in 0..n_slots as i32 {
        if bit(6 + i as u64) {
            pushw(&mut prep, &[i, 64 * (3 + i) + (sig % 17) as i32]);
            prep.push(WS);
        }
    }
    // cvt writes (26.6 pixels)
    for j in 0..n_slots as i32 {
        if bit(10 + j as u64) {
            pushw(&mut prep, &[j, 64 * (5 + j) + (sig % 13) as i32]);
            prep.push(WCVTP);
        }
    }
    // twilight points
    if sig >> 14 & 0xF != 0 {
        pushw(&mut prep, &[0]);
        prep.push(SZPS);
        prep.push(SVTCA_Y);
        for t in 0..n_slots as i32 {
            if bit(14 + t as u64) {
                pushw(&mut prep, &[t, 64 * (7 + t) + (sig % 11) as i32]);
                prep.push(SCFS);
            }
        }
        pushw(&mut prep, &[1]);
        prep.push(SZPS);
    }
    // size dependent state: below 20 ppem one more storage cell is written
    if bit(18) {
        prep.push(MPPEM);
        pushw(&mut prep, &[20]);
        prep.push(LT);
        prep.push(IF);
        pushw(&mut prep, &[0, 999]);
        prep.push(WS);
        prep.push(EIF);
    }
    // glyph 1: reads storage, cvt, twilight into point coordinates
    let mut g1 = vec![SVTCA_Y];
    for i in 0..n_slots as i32 {
        pushw(&mut g1, &[i, i]); // point i, storage index i
        g1.push(RS);
        g1.push(SCFS);
    }
    for j in 0..n_slots as i32 {
        pushw(&mut g1, &[4 + j, j]);
        g1.push(RCVT);
        g1.push(SCFS);
    }
    for t in 0..n_slots as i32 {
        pushw(&mut g1, &[8 + t, 0]);
        g1.push(SZP2);
        pushw(&mut g1, &[t]);
        g1.push(GC0);
        pushw(&mut g1, &[1]);
        g1.push(SZP2);
        g1.push(SCFS);
    }
    // glyph 2..5: call function k (undefined in some fonts: hinting error)
    let call_glyph = |k: i32| {
        let mut g = vec![SVTCA_Y];
        pushw(&mut g, &[0, k]);
        g.push(CALL);
        g.push(SCFS);
        g
    };
    // glyph 6/7: custom opcodes
    let idef_glyph = |opc: u8| {
        let mut g = vec![SVTCA_Y];
        pushw(&mut g, &[1]);
        g.push(opc);
        g.push(SCFS);
        g
    };
    // glyph 8: writes storage/cvt/twilight itself, then reads back (glyph-time writes must stay private)
    let mut g8 = vec![SVTCA_Y];
    pushw(&mut g8, &[1, 777]);
    g8.push(WS);
    pushw(&mut g8, &[1, 888]);
    g8.push(WCVTP);
    pushw(&mut g8, &[0]);
    g8.push(SZPS);
    pushw(&mut g8, &[1, 555]);
    g8.push(SCFS);
    pushw(&mut g8, &[1]);
    g8.push(SZPS);
    // own writes …
    pushw(&mut g8, &[2, 1]);
    g8.push(RS);
    pushw(&mut g8, &[1]);
    g8.push(RCVT);
    g8.push(ADD);
    g8.push(SCFS);
    // … and cells this glyph did not write, read after the copy-on-write was triggered
    pushw(&mut g8, &[3, 0]);
    g8.push(RS);
    pushw(&mut g8, &[2]);
    g8.push(RCVT);
    g8.push(ADD);
    g8.push(SCFS);
    let simple = |instr: Vec<u8>| SGlyph::Simple { contours: vec![7, 6], instr };
    let glyphs = vec![
        SGlyph::Empty,
        simple(g1),
        simple(call_glyph(0)),
        simple(call_glyph(1)),
        simple(call_glyph(2)),
        simple(call_glyph(3)),
        simple(idef_glyph(CUSTOM)),
        simple(idef_glyph(CUSTOM2)),
        simple(g8),
        SGlyph::Composite { comps: vec![1, 8], instr: Some(vec![SVTCA_Y]), anchors: vec![] },
        simple(vec![]),
    ];
    SFont {
        glyphs,
        gvar_axes: if bit(19) { Some(2) } else { None },
        fpgm,
        prep,
        cvt: (0..(4 + sig % 3) as i16).map(|i| 100 + 10 * i + (sig % 7) as i16).collect(),
        max_storage: 4 + (sig % 4) as u16,
        max_twilight: 4 + (sig / 4 % 4) as u16,
        max_funcs: 4 + (sig / 16 % 3) as u16,
        max_idefs: 2 + (sig / 64 % 3) as u16,
        max_stack: 32 + rng.below(32) as u16,
    }
}

fn part_state_fonts(cfg: &Config, s: &mut Session, rng: &mut Rng) {
    let n_fonts = if cfg.thorough() { 80 } else { 20 };
    let mut datas: Vec<(u64, Vec<u8>)> = vec![];
    // the all-writing and the nothing-writing font are always present
    let mut sigs: Vec<u64> = vec![0xFFFFF, 0, 0x3FFFF & 0x2AAAA, 0x15555];
    while sigs.len() < n_fonts {
        sigs.push(rng.next() & 0xFFFFF);
    }
    for sig in sigs {
        let f = state_font(rng, sig);
        datas.push((sig, build_sfont(&f)));
    }
    let refs: Vec<FontRef> = datas.iter().filter_map(|(_, d)| FontRef::new(d).ok()).collect();
    if refs.len() != datas.len() {
        s.oracle("synth.fonts_readable", false, || "state fonts".into(), || "FontRef::new failed".into());
        return;
    }
    let pool: Vec<OutlineGlyphCollection> = refs.iter().map(|f| f.outline_glyphs()).collect();
    // observation only (API misuse, outside the property): an instance configured for one font used to
    // draw a glyph of another font whose cvt / twilight sizes differ
    for i in 0..pool.len().min(6) {
        for j in 0..pool.len().min(6) {
            if i == j {
                continue;
            }
            let Ok(Ok(inst)) = catch(|| HintingInstance::new(&pool[i], Size::new(16.0), LocationRef::default(), options_from(0, 1))) else { continue };
            let Some(g) = pool[j].get(GlyphId::new(1)) else { continue };
            let d = draw_hinted(&g, &inst, false, Mem::Library);
            s.count(if d.result.starts_with("panic") { "cross-font-instance:panic" } else if d.ok { "cross-font-instance:ok" } else { "cross-font-instance:err" });
            if d.result.starts_with("panic") && !s.notes.iter().any(|n| n.starts_with("cross-font")) {
                s.notes.push(format!("cross-font instance use (not part of C12): {}", d.result));
            }
        }
    }
    for (i, (sig, _)) in datas.iter().enumerate() {
        let axes = if sig >> 19 & 1 == 1 { 2 } else { 0 };
        font_battery(cfg, s, rng, &format!("synth-state-{sig:05x}"), &pool[i], 11, axes, true, &pool, if cfg.thorough() { 24 } else { 8 }, true);
    }
}

/// an instance that has been through 1–3 other configurations (other fonts, sizes, locations, modes)
fn dirty_instance(rng: &mut Rng, collections: &[OutlineGlyphCollection], synth: bool) -> Option<HintingInstance> {
    let mut inst: Option<HintingInstance> = None;
    let steps = 1 + rng.below(3);
    for _ in 0..steps {
        let fi = rng.below(collections.len() as u64) as usize;
        let outlines = &collections[fi];
        let size = pick_size(rng);
        let n_axes = rng.below(4) as usize;
        let coords = random_coords(rng, n_axes);
        let (opts, _) = if synth { (options_from(0, rng.below(6)), String::new()) } else { hint_options(rng) };
        match inst.as_mut() {
            None => {
                if let Ok(Ok(i)) = catch(|| HintingInstance::new(outlines, size, LocationRef::new(&coords), opts)) {
                    inst = Some(i);
                }
            }
            Some(i) => {
                let _ = catch(|| i.reconfigure(outlines, size, LocationRef::new(&coords), opts));
            }
        }
    }
    inst
}

/// first differing field of two `verif_state` strings
fn diff_hint(a: &str, b: &str) -> String {
    let pa: Vec<&str> = a.split(' ').collect();
    let pb: Vec<&str> = b.split(' ').collect();
    for (i, (x, y)) in pa.iter().zip(pb.iter()).enumerate() {
        if x != y {
            let lo = i.saturating_sub(2);
            return format!("token {i}: fresh ..{}.. vs ..{}..", pa[lo..(i + 3).min(pa.len())].join(" "), pb[lo..(i + 3).min(pb.len())].join(" "));
        }
    }
    format!("lengths {} vs {}", pa.len(), pb.len())
}

// ---------------------------------------------------------------------------------------------
// part F: the interpreter's value stack on dirty backing memory (hook hint_value_stack::run)

fn part_vstack(cfg: &Config, s: &mut Session, rng: &mut Rng) {
    let n = if cfg.thorough() { 60000 } else { 6000 };
    for _ in 0..n {
        let cap = rng.below(12) as usize;
        let pedantic = rng.chance(1, 2);
        let prefill = *rng.pick(&[0i32, -1, 7, 0x5A5A5A5A, i32::MIN, 3]);
        let n_ops = 1 + rng.below(24) as usize;
        let mut ops: Vec<(u8, i32)> = vec![];
        while ops.len() < n_ops {
            let code = match rng.below(20) {
                0..=6 => 0u8,
                7..=8 => 1,
                9 => 2,
                10 => 3,
                11 => 4,
                12 => if rng.chance(1, 4) { 5 } else { 1 },
                13..=14 => 6,
                15..=16 => 7,
                17 => 8,
                18 => if rng.chance(1, 2) { 9 } else { 10 },
                _ => 11,
            };
            match code {
                0 => ops.push((0, *rng.pick(&[0i32, 1, 2, 3, 4, -1, 5, 100, -7, i32::MAX]))),
                11 => {
                    let k = rng.below(4) as i32;
                    ops.push((11, k));
                    for _ in 0..k {
                        ops.push((0, rng.range(-3, 6) as i32));
                    }
                }
                c => ops.push((c, 0)),
            }
            s.count(&format!("vstack:op{code}"));
        }
        let run_with = |fill: i32| -> String {
            let mut buf = vec![fill; cap];
            let r = catch(|| verif_hooks::hint_value_stack::run(&mut buf, pedantic, &ops));
            match r {
                Ok(outs) => outs
                    .iter()
                    .map(|o| match o {
                        Ok(vs) => format!("ok{}", vs.iter().map(|v| format!(" {v}")).collect::<String>()),
                        Err(e) => e.clone(),
                    })
                    .collect::<Vec<_>>()
                    .join("|"),
                Err(_) => "trap".into(),
            }
        };
        let got = run_with(prefill);
        let other = run_with(prefill.wrapping_mul(31).wrapping_add(0x1234567));
        let flat: Vec<String> = ops.iter().map(|(c, a)| format!("{c} {a}")).collect();
        let req = format!("vstack {cap} {} {prefill} {}", pedantic as u8, flat.join(" "));
        s.oracle("vstack.buffer_independent", got == other, || req.clone(), || format!("{got} | {other}"));
        for o in got.split('|') {
            s.count(if o.starts_with("ok") { "vstack:ok" } else if o.contains("Overflow") { "vstack:overflow" } else { "vstack:underflow" });
        }
        s.case("vstack", req, got);
    }
}

// ---------------------------------------------------------------------------------------------
// part G: SimpleGlyph::read_points_fast into dirty point / flag buffers

fn part_rpf(cfg: &Config, s: &mut Session, rng: &mut Rng) {
    use read_fonts::{tables::glyf::SimpleGlyph, FontData, FontRead};
    let n = if cfg.thorough() { 40000 } else { 5000 };
    for _ in 0..n {
        let np = rng.below(9) as usize;
        // flags with repeats, then coordinates as the flags demand
        let mut flags: Vec<u8> = vec![];
        let mut expanded: Vec<u8> = vec![];
        while expanded.len() < np {
            let f = (rng.below(64) as u8) & !0x08;
            if rng.chance(1, 3) {
                let rep = rng.below(4) as u8;
                flags.push(f | 0x08);
                flags.push(rep);
                for _ in 0..=rep {
                    expanded.push(f);
                }
            } else {
                flags.push(f);
                expanded.push(f);
            }
        }
        expanded.truncate(np);
        let mut data = flags.clone();
        for (short, same) in [(0x02u8, 0x10u8), (0x04, 0x20)] {
            for f in &expanded {
                if f & short != 0 {
                    data.push(rng.below(256) as u8);
                } else if f & same == 0 {
                    data.extend_from_slice(&(rng.range(-300, 300) as i16).to_be_bytes());
                }
            }
        }
        // damage: truncate / append
        match rng.below(8) {
            0 => {
                let k = rng.below(data.len() as u64 + 1) as usize;
                data.truncate(k);
                s.count("rpf:truncated");
            }
            1 => {
                data.extend(rng.bytes(3));
                s.count("rpf:extra-bytes");
            }
            _ => s.count("rpf:as-built"),
        }
        let mut g: Vec<u8> = vec![];
        g.extend_from_slice(&(if np == 0 { 0i16 } else { 1 }).to_be_bytes());
        g.extend_from_slice(&[0u8; 8]);
        if np > 0 {
            g.extend_from_slice(&((np - 1) as u16).to_be_bytes());
        }
        g.extend_from_slice(&0u16.to_be_bytes());
        g.extend_from_slice(&data);
        let Ok(glyph) = SimpleGlyph::read(FontData::new(&g)) else {
            s.count("rpf:unreadable");
            continue;
        };
        let n_pts = glyph.num_points();
        let gd = glyph.glyph_data().to_vec();
        let (px, py, pf) = (rng.range(-5, 500) as i32, rng.range(-5, 500) as i32, rng.below(256) as u8);
        let run_with = |px: i32, py: i32, pf: u8| -> String {
            let mut pts = vec![Point::new(px, py); n_pts];
            let mut fl = vec![PointFlags::from_bits(pf); n_pts];
            match catch(|| glyph.read_points_fast(&mut pts, &mut fl)) {
                Ok(Ok(())) => format!(
                    "ok{}",
                    pts.iter().zip(&fl).map(|(p, f)| format!(" {} {} {}", p.x, p.y, f.to_bits() & 1)).collect::<String>()
                ),
                Ok(Err(_)) => "err".into(),
                Err(_) => "trap".into(),
            }
        };
        let got = run_with(px, py, pf);
        let other = run_with(py ^ 0x55, px.wrapping_add(77), !pf);
        let req = format!("rpf {n_pts} {px} {py} {pf} {}", gd.iter().map(|b| b.to_string()).collect::<Vec<_>>().join(" "));
        s.oracle("rpf.buffer_independent", got == other, || req.clone(), || format!("{got} | {other}"));
        s.count(if got.starts_with("ok") { "rpf:ok" } else { "rpf:err" });
        s.case("rpf", req, got);
    }
}

fn run(cfg: &Config, s: &mut Session) {
    let mut rng = Rng::new(cfg.seed);
    part_to_path(cfg, s, &mut rng);
    part_carve(cfg, s, &mut rng);
    let mut rng = Rng::new(cfg.seed ^ 0xC12);
    part_fonts(cfg, s, &mut rng);
    let mut rng = Rng::new(cfg.seed ^ 0xD12);
    part_counts(cfg, s, &mut rng);
    part_state_fonts(cfg, s, &mut rng);
    let mut rng = Rng::new(cfg.seed ^ 0xF12);
    part_vstack(cfg, s, &mut rng);
    part_rpf(cfg, s, &mut rng);
    let _ = Location::new(0);
}

fn main() {
    fv_harness::main_with("C12", run)
}
