//! C12 (stub)
use fv_harness::common::*;
fn run(_cfg: &Config, _s: &mut Session) {
    let _ = skrifa::outline::verif_hooks::required_buffer_size(Default::default(), false);
}
fn main() { fv_harness::main_with("C12", run) }
