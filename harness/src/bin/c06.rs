//! C06 — built font files are well-formed sfnt containers that return the tables put in.
//!
//! Correspondence: `FontBuilder::{add_raw, copy_missing_tables, ordered_tags, build}` and
//! `FontRef::{new, table_directory.table_records, table_data}` vs Model/Sfnt.lean, on builder
//! histories (add / add-duplicate / copy-missing from built, real and damaged fonts) — output bytes
//! compared exactly.  Oracles (model-independent, on the real output): re-open with `FontRef`,
//! tags ascending and exactly the supplied set, every table returned byte-for-byte (head[8..12]
//! excepted), 4-alignment, zero padding, tiling of the file, directory checksums and whole-file
//! checksum recomputed with an independent summation, binary-search header fields (saturated at 65535
//! where the u16 field cannot hold the value: 4096..=65535 tables), no panic up to 65535 tables, insertion-order
//! independence (shuffled rebuild), copy-missing never overriding.
use fv_harness::common::*;
use read_fonts::types::Tag;
use read_fonts::{FontRef, ReadError};
use std::collections::BTreeMap;
use write_fonts::FontBuilder;

#[derive(Clone)]
enum Op {
    Add(Tag, Vec<u8>),
    Copy(Vec<u8>),
}

const HEAD: Tag = Tag::new(b"head");

fn tag_hex(t: Tag) -> String {
    hex(&t.to_be_bytes())
}

fn op_str(op: &Op) -> String {
    match op {
        Op::Add(t, d) => format!("A{}:{}", tag_hex(*t), hex(d)),
        Op::Copy(src) => format!("C{}", hex(src)),
    }
}

fn ops_str(ops: &[Op]) -> String {
    ops.iter().map(op_str).collect::<Vec<_>>().join(" ")
}

/// independent checksum: 64-bit sum of zero-extended big-endian words, reduced at the end
fn ref_checksum(bytes: &[u8]) -> u32 {
    let mut sum: u64 = 0;
    let mut i = 0;
    while i < bytes.len() {
        let mut w: u64 = 0;
        for k in 0..4 {
            let b = if i + k < bytes.len() { bytes[i + k] } else { 0 };
            w = w * 256 + b as u64;
        }
        sum += w;
        i += 4;
    }
    (sum % (1u64 << 32)) as u32
}

fn err_name(e: &ReadError) -> String {
    match e {
        ReadError::OutOfBounds => "err:OutOfBounds".into(),
        ReadError::InvalidSfnt(_) => "err:InvalidSfnt".into(),
        other => format!("err:other:{other:?}"),
    }
}

/// canonical rendering of `FontRef::new` + `table_records()`
fn open_str(bytes: &[u8]) -> String {
    match FontRef::new(bytes) {
        Err(e) => err_name(&e),
        Ok(f) => {
            let recs: Vec<String> = f
                .table_directory
                .table_records()
                .iter()
                .map(|r| format!("{}:{}:{}:{}", tag_hex(r.tag()), r.checksum(), r.offset(), r.length()))
                .collect();
            format!("ok {} {}", f.table_directory.num_tables(), join(&recs))
        }
    }
}

fn read_str(bytes: &[u8], tags: &[Tag]) -> String {
    match FontRef::new(bytes) {
        Err(e) => err_name(&e),
        Ok(f) => {
            let v: Vec<String> = tags
                .iter()
                .map(|t| match f.table_data(*t) {
                    None => "none".to_string(),
                    Some(d) => hex(d.as_bytes()),
                })
                .collect();
            join(&v)
        }
    }
}

/// Harness-side statement of what the history means (independent of write-fonts):
/// add = last write wins; copy = tables of the source (as its reader returns them) that are not
/// yet present.
fn expected_map(ops: &[Op]) -> BTreeMap<Tag, Vec<u8>> {
    let mut m: BTreeMap<Tag, Vec<u8>> = BTreeMap::new();
    for op in ops {
        match op {
            Op::Add(t, d) => {
                m.insert(*t, d.clone());
            }
            Op::Copy(src) => {
                if let Ok(f) = FontRef::new(src) {
                    for r in f.table_directory.table_records() {
                        let t = r.tag();
                        if !m.contains_key(&t) {
                            if let Some(d) = f.table_data(t) {
                                m.insert(t, d.as_bytes().to_vec());
                            }
                        }
                    }
                }
            }
        }
    }
    m
}

/// run a history on the real builder; returns (ordered_tags, build output)
fn real_build(ops: &[Op]) -> Result<(Vec<Tag>, Vec<u8>), String> {
    catch(|| {
        let mut b = FontBuilder::new();
        for op in ops {
            match op {
                Op::Add(t, d) => {
                    b.add_raw(*t, d.clone());
                }
                Op::Copy(src) => {
                    if let Ok(f) = FontRef::new(src) {
                        b.copy_missing_tables(f);
                    }
                }
            }
        }
        let order = b.ordered_tags();
        let out = b.build();
        (order, out)
    })
}

fn round4(n: usize) -> usize {
    (n + 3) / 4 * 4
}

fn same_but_adjustment(tag: Tag, supplied: &[u8], got: &[u8]) -> bool {
    if supplied.len() != got.len() {
        return false;
    }
    if tag == HEAD && supplied.len() >= 12 {
        supplied[..8] == got[..8] && supplied[12..] == got[12..]
    } else {
        supplied == got
    }
}

fn describe(ops: &[Op]) -> String {
    let s = ops_str(ops);
    if s.len() > 600 {
        let short: Vec<String> = ops
            .iter()
            .map(|op| match op {
                Op::Add(t, d) => format!("A{}:<{} bytes, first {}>", tag_hex(*t), d.len(), hex(&d[..d.len().min(16)])),
                Op::Copy(src) => format!("C<{} bytes, first {}>", src.len(), hex(&src[..src.len().min(32)])),
            })
            .collect();
        short.join(" ")
    } else {
        s
    }
}

/// All property oracles on one real output.
fn oracles(s: &mut Session, ops: &[Op], out: &[u8]) {
    let expect = expected_map(ops);
    let input = || describe(ops);
    let font = match FontRef::new(out) {
        Ok(f) => f,
        Err(e) => {
            s.oracle("built-font-opens", false, input, || format!("{e:?}"));
            return;
        }
    };
    s.oracle("built-font-opens", true, input, String::new);
    let recs = font.table_directory.table_records();
    let n = expect.len();
    // directory lists exactly the supplied tags, ascending
    let dir_tags: Vec<Tag> = recs.iter().map(|r| r.tag()).collect();
    let want_tags: Vec<Tag> = expect.keys().copied().collect();
    s.oracle("dir-tags-exact-ascending", dir_tags == want_tags && dir_tags.windows(2).all(|w| w[0] < w[1]), input,
        || format!("dir {:?} want {:?}", dir_tags, want_tags));
    s.oracle("num-tables", font.table_directory.num_tables() as usize == n, input, || format!("{}", font.table_directory.num_tables()));
    s.oracle("sfnt-version", font.table_directory.sfnt_version() == 0x0001_0000, input, String::new);
    // binary search assists as in the OpenType spec; a value the u16 field cannot hold (search_range from
    // 4096 tables on, range_shift from 2^k + 4096 tables on) is stored saturated at 65535
    if n >= 1 {
        let es = (usize::BITS - 1 - n.leading_zeros()) as usize;
        let sr = 16usize << es;
        let rs = 16 * n - sr;
        let td = &font.table_directory;
        s.count(match (sr > 65535, rs > 65535) { (false, false) => "search-fields:exact", (true, false) => "search-fields:sr-saturated", (true, true) => "search-fields:sr+rs-saturated", (false, true) => "search-fields:rs-only(impossible)" });
        s.oracle("search-range-fields", td.entry_selector() as usize == es && td.search_range() as usize == sr.min(65535) && td.range_shift() as usize == rs.min(65535),
            input, || format!("{} {} {}", td.search_range(), td.entry_selector(), td.range_shift()));
    }
    // every table comes back, aligned, padded, checksummed
    let header_len = 12 + 16 * n;
    let mut spans: Vec<(usize, usize)> = vec![];
    let mut sum_ok = true;
    for r in recs {
        let tag = r.tag();
        let off = r.offset() as usize;
        let len = r.length() as usize;
        let got = font.table_data(tag);
        let supplied = expect.get(&tag);
        let data_ok = match (&got, supplied) {
            (Some(g), Some(sup)) => same_but_adjustment(tag, sup, g.as_bytes()),
            _ => false,
        };
        s.oracle("table-data-returns-supplied", data_ok, input, || format!("tag {} got {:?} bytes", tag, got.map(|g| g.len())));
        s.oracle("offset-4-aligned", off % 4 == 0 && off >= header_len, input, || format!("tag {tag} offset {off}"));
        let end = off + len;
        let pad_end = off + round4(len);
        let pad_ok = pad_end <= out.len() && out[end.min(out.len())..pad_end.min(out.len())].iter().all(|b| *b == 0);
        s.oracle("zero-padded", pad_ok, input, || format!("tag {tag} off {off} len {len} file {}", out.len()));
        spans.push((off, round4(len)));
        if end <= out.len() {
            let mut t = out[off..end].to_vec();
            if tag == HEAD && t.len() >= 12 {
                t[8..12].copy_from_slice(&[0, 0, 0, 0]);
            }
            let c = ref_checksum(&t);
            if c != r.checksum() {
                sum_ok = false;
            }
            s.oracle("dir-checksum", c == r.checksum(), input, || format!("tag {tag} dir {} computed {c}", r.checksum()));
        }
    }
    let _ = sum_ok;
    // tables tile the file after the directory: no gaps, no overlaps, nothing after the last
    spans.sort();
    let mut pos = header_len;
    let mut tile_ok = true;
    for (off, l) in &spans {
        if *off != pos {
            tile_ok = false;
        }
        pos = off + l;
    }
    s.oracle("tables-tile-file", tile_ok && pos == out.len(), input, || format!("spans {:?} file {}", spans, out.len()));
    // absent tags are absent
    for probe in absent_probes(&want_tags) {
        s.oracle("absent-tag-none", font.table_data(probe).is_none(), input, || format!("probe {probe}"));
    }
    // whole-file checksum
    if let Some(h) = expect.get(&HEAD) {
        if h.len() >= 12 {
            let c = ref_checksum(out);
            s.oracle("whole-file-checksum", c == 0xB1B0_AFBA, input, || format!("{c:#x}"));
            s.count("head>=12");
        } else {
            s.count("head<12");
        }
    } else {
        s.count("no-head");
    }
}

fn absent_probes(present: &[Tag]) -> Vec<Tag> {
    let mut v = vec![];
    let mut cands: Vec<u32> = vec![0, 0xFFFF_FFFF, u32::from_be_bytes(*b"zzzz"), u32::from_be_bytes(*b"head")];
    for t in present.iter().take(6) {
        let x = u32::from_be_bytes(t.to_be_bytes());
        cands.push(x.wrapping_add(1));
        cands.push(x.wrapping_sub(1));
    }
    for c in cands {
        let t = Tag::from_be_bytes(c.to_be_bytes());
        if !present.contains(&t) && !v.contains(&t) {
            v.push(t);
        }
    }
    v
}

// ---------------------------------------------------------------- generators

fn special_tags() -> Vec<Tag> {
    let names: [&[u8; 4]; 27] = [
        b"head", b"hhea", b"maxp", b"OS/2", b"hmtx", b"LTSH", b"VDMX", b"hdmx", b"cmap", b"fpgm", b"prep", b"cvt ",
        b"loca", b"glyf", b"kern", b"name", b"post", b"gasp", b"PCLT", b"CFF ", b"DSIG", b"GSUB", b"GPOS", b"CFF2",
        b"heac", b"heae", b"DSIH",
    ];
    let mut v: Vec<Tag> = names.iter().map(|n| Tag::new(n)).collect();
    // every 4-byte tag literal the builder / reader sources mention is a special tag as well: a tag
    // that the code starts to treat specially enters the generator's alphabet on the same run
    for t in source_tag_literals() {
        if !v.contains(&t) {
            v.push(t);
        }
    }
    v
}

/// `b"xxxx"` literals (and `Tag::new(b"xxxx")`) in the sources of FontBuilder / FontRef, located through
/// the harness' own path dependency on write-fonts (so a scratch copy built against a patched
/// worktree scans that worktree).
fn source_tag_literals() -> Vec<Tag> {
    let manifest = include_str!(concat!(env!("CARGO_MANIFEST_DIR"), "/Cargo.toml"));
    let root = manifest
        .lines()
        .find(|l| l.trim_start().starts_with("write-fonts"))
        .and_then(|l| l.split("path = \"").nth(1))
        .and_then(|r| r.split('"').next())
        .and_then(|p| p.strip_suffix("/write-fonts").or(Some(p)))
        .unwrap_or("/repo")
        .to_string();
    let mut out: Vec<Tag> = vec![];
    for rel in ["write-fonts/src/font_builder.rs", "read-fonts/src/lib.rs", "read-fonts/src/table_provider.rs", "read-fonts/src/tables.rs"] {
        let Ok(src) = std::fs::read(format!("{root}/{rel}")) else { continue };
        let mut i = 0;
        while i + 7 <= src.len() {
            if src[i] == b'b' && src[i + 1] == b'"' && src[i + 6] == b'"' && src[i + 2..i + 6].iter().all(|c| (0x20..0x7F).contains(c) && *c != b'"' && *c != b'\\') {
                let t = Tag::from_be_bytes([src[i + 2], src[i + 3], src[i + 4], src[i + 5]]);
                if !out.contains(&t) {
                    out.push(t);
                }
                i += 7;
            } else {
                i += 1;
            }
        }
    }
    out.sort();
    out
}

fn gen_tag(rng: &mut Rng, specials: &[Tag]) -> Tag {
    match rng.below(10) {
        0..=5 => *rng.pick(specials),
        6 => {
            // printable
            let b: Vec<u8> = (0..4).map(|_| 0x20 + rng.below(0x5F) as u8).collect();
            Tag::from_be_bytes([b[0], b[1], b[2], b[3]])
        }
        7 => Tag::from_be_bytes((rng.next() as u32).to_be_bytes()),
        8 => *rng.pick(&[Tag::from_be_bytes([0; 4]), Tag::from_be_bytes([0xFF; 4]), Tag::from_be_bytes([0, 0, 0, 1]), Tag::from_be_bytes([0x80, 0, 0, 0])]),
        _ => {
            // neighbour of a special tag
            let x = u32::from_be_bytes(rng.pick(specials).to_be_bytes());
            let d = *rng.pick(&[1u32, 0x100, 0x1_0000, 0x100_0000]);
            Tag::from_be_bytes((if rng.chance(1, 2) { x.wrapping_add(d) } else { x.wrapping_sub(d) }).to_be_bytes())
        }
    }
}

fn gen_len(rng: &mut Rng, allow_large: bool) -> usize {
    match rng.below(100) {
        0..=34 => rng.below(17) as usize,
        35..=64 => rng.below(65) as usize,
        65..=84 => 64 + rng.below(960) as usize,
        85..=96 => 4 * rng.below(300) as usize + rng.below(4) as usize,
        _ => {
            if allow_large {
                // up to 70000, every residue mod 4
                let base = *rng.pick(&[4096usize, 16384, 65532, 65536, 69996]);
                base + rng.below(8) as usize
            } else {
                1024 + rng.below(3000) as usize
            }
        }
    }
}

fn gen_bytes(rng: &mut Rng, len: usize) -> Vec<u8> {
    match rng.below(10) {
        0 => vec![0xFF; len],
        1 => vec![0; len],
        2 | 3 => {
            // random with runs of 0xFF (carry chains in the 32-bit sums)
            let mut v = rng.bytes(len);
            let mut i = 0;
            while i < len {
                let run = 1 + rng.below(24) as usize;
                if rng.chance(1, 2) {
                    for b in v.iter_mut().skip(i).take(run) {
                        *b = 0xFF;
                    }
                }
                i += run;
            }
            v
        }
        4 => {
            // words 0xFFFFFFFF / 0x00000001 / 0x80000000
            let mut v = Vec::with_capacity(len);
            while v.len() < len {
                let w: [u8; 4] = *rng.pick(&[[0xFF; 4], [0, 0, 0, 1], [0x80, 0, 0, 0], [0x7F, 0xFF, 0xFF, 0xFF]]);
                v.extend_from_slice(&w);
            }
            v.truncate(len);
            v
        }
        _ => rng.bytes(len),
    }
}

fn gen_table(rng: &mut Rng, specials: &[Tag], allow_large: bool) -> (Tag, Vec<u8>) {
    let tag = gen_tag(rng, specials);
    let len = if tag == HEAD && rng.chance(3, 4) {
        *rng.pick(&[0usize, 1, 7, 8, 9, 10, 11, 12, 13, 14, 15, 16, 53, 54, 55, 56])
    } else {
        gen_len(rng, allow_large)
    };
    (tag, gen_bytes(rng, len))
}

/// damage a well-formed font (for the reader correspondence and as copy sources)
fn damage(rng: &mut Rng, font: &[u8]) -> Vec<u8> {
    let mut v = font.to_vec();
    let n = if v.len() >= 6 { u16::from_be_bytes([v[4], v[5]]) as usize } else { 0 };
    match rng.below(12) {
        0 => {
            let cut = *rng.pick(&[0usize, 1, 4, 5, 6, 11, 12, 12 + 16 * n - 1, 12 + 16 * n, 12 + 16 * n + 1]);
            v.truncate(cut.min(v.len()));
        }
        1 => {
            let cut = rng.below(v.len() as u64 + 1) as usize;
            v.truncate(cut);
        }
        2 => {
            let ver: [u8; 4] = *rng.pick(&[*b"OTTO", *b"true", *b"ttcf", *b"typ1", [0, 1, 0, 1], [0, 2, 0, 0], [0; 4]]);
            if v.len() >= 4 {
                v[..4].copy_from_slice(&ver);
            }
        }
        3 => {
            // numTables off
            if v.len() >= 6 {
                let m = match rng.below(4) {
                    0 => n.saturating_sub(1),
                    1 => n + 1,
                    2 => 0,
                    _ => rng.below(70000) as usize % 65536,
                };
                v[4..6].copy_from_slice(&(m as u16).to_be_bytes());
            }
        }
        4 | 5 => {
            // swap two records: unsorted directory
            if n >= 2 && v.len() >= 12 + 16 * n {
                let i = rng.below(n as u64) as usize;
                let j = rng.below(n as u64) as usize;
                for k in 0..16 {
                    v.swap(12 + 16 * i + k, 12 + 16 * j + k);
                }
            }
        }
        6 => {
            // duplicate a tag
            if n >= 2 && v.len() >= 12 + 16 * n {
                let i = rng.below(n as u64) as usize;
                let j = rng.below(n as u64) as usize;
                for k in 0..4 {
                    v[12 + 16 * j + k] = v[12 + 16 * i + k];
                }
            }
        }
        7 | 8 => {
            // offset / length at the edges
            if n >= 1 && v.len() >= 12 + 16 * n {
                let i = rng.below(n as u64) as usize;
                let flen = v.len() as u32;
                let off = u32::from_be_bytes([v[12 + 16 * i + 8], v[12 + 16 * i + 9], v[12 + 16 * i + 10], v[12 + 16 * i + 11]]);
                let (field, val): (usize, u32) = match rng.below(7) {
                    0 => (8, 0),
                    1 => (8, flen),
                    2 => (8, flen + 1),
                    3 => (12, flen.saturating_sub(off)),
                    4 => (12, flen.saturating_sub(off) + 1),
                    5 => (12, 0xFFFF_FFFF),
                    _ => (8, 0xFFFF_FFFF),
                };
                v[12 + 16 * i + field..12 + 16 * i + field + 4].copy_from_slice(&val.to_be_bytes());
            }
        }
        9 => {
            // random flips in the directory
            let lim = (12 + 16 * n).min(v.len());
            for _ in 0..(1 + rng.below(3)) {
                if lim > 0 {
                    let i = rng.below(lim as u64) as usize;
                    v[i] ^= 1 << rng.below(8);
                }
            }
        }
        10 => {
            // trailing garbage
            let extra = rng.below(9) as usize;
            v.extend(rng.bytes(extra));
        }
        _ => {
            // overlapping: point one record at another's data
            if n >= 2 && v.len() >= 12 + 16 * n {
                let i = rng.below(n as u64) as usize;
                let j = rng.below(n as u64) as usize;
                for k in 8..16 {
                    v[12 + 16 * j + k] = v[12 + 16 * i + k];
                }
            }
        }
    }
    v
}

struct Pools {
    built: Vec<Vec<u8>>,
    real: Vec<&'static [u8]>,
}

fn gen_ops(rng: &mut Rng, specials: &[Tag], pools: &Pools, allow_large: bool) -> Vec<Op> {
    let n_ops = match rng.below(20) {
        0 => 0,
        1..=12 => 1 + rng.below(8) as usize,
        13..=17 => 8 + rng.below(16) as usize,
        _ => 24 + rng.below(30) as usize,
    };
    let mut ops: Vec<Op> = vec![];
    let mut large_used = false;
    for _ in 0..n_ops {
        match rng.below(20) {
            0 | 1 => {
                // re-add an already used tag (duplicate)
                let prev: Vec<Tag> = ops.iter().filter_map(|o| if let Op::Add(t, _) = o { Some(*t) } else { None }).collect();
                if prev.is_empty() {
                    let (t, d) = gen_table(rng, specials, false);
                    ops.push(Op::Add(t, d));
                } else {
                    let t = *rng.pick(&prev);
                    let len = gen_len(rng, false);
                    ops.push(Op::Add(t, gen_bytes(rng, len)));
                }
            }
            2 => {
                if !pools.built.is_empty() {
                    let src = rng.pick(&pools.built).clone();
                    let src = if rng.chance(1, 3) { damage(rng, &src) } else { src };
                    ops.push(Op::Copy(src));
                }
            }
            3 => {
                if rng.chance(1, 4) && !pools.real.is_empty() {
                    let src = rng.pick(&pools.real).to_vec();
                    let src = if rng.chance(1, 4) { damage(rng, &src) } else { src };
                    ops.push(Op::Copy(src));
                }
            }
            _ => {
                let (t, d) = gen_table(rng, specials, allow_large && !large_used);
                if d.len() > 4000 {
                    large_used = true;
                }
                ops.push(Op::Add(t, d));
            }
        }
    }
    ops
}

fn do_case(s: &mut Session, rng: &mut Rng, ops: &[Op], pools: &mut Pools, read_too: bool) {
    let r = real_build(ops);
    let req = format!("sfnt.build {}", ops_str(ops));
    match &r {
        Err(_) => {
            s.case("build", req, "trap".into());
            s.count("build:trap");
            // a trap is only acceptable beyond the container's own limit: numTables is a u16
            // (the harness never supplies 4 GiB of table data)
            let m = expected_map(ops);
            s.oracle("build-does-not-panic-within-limits", m.len() > 65535, || describe(ops), || format!("{} tables", m.len()));
        }
        Ok((order, out)) => {
            s.case("build", req, hex(out));
            let n = order.len();
            s.count(&format!("tables:{}", match n { 0 => "0", 1 => "1", 2..=4 => "2-4", 5..=16 => "5-16", 17..=64 => "17-64", _ => "65+" }));
            s.count(&format!("file-bytes:{}", match out.len() { 0..=255 => "<256", 256..=4095 => "<4K", 4096..=65535 => "<64K", _ => ">=64K" }));
            if order.contains(&Tag::new(b"CFF ")) { s.count("order:cff"); } else { s.count("order:ttf"); }
            if order.contains(&Tag::new(b"DSIG")) { s.count("order:dsig"); }
            // ordered_tags on the final key set
            let mut keys = order.clone();
            keys.sort();
            // (large key sets are sent descending: O(1) association-list inserts in the model; the answer does
            // not depend on the insertion order)
            let okeys: Vec<Tag> = if keys.len() > 300 { keys.iter().rev().copied().collect() } else { keys.clone() };
            let oreq = format!("sfnt.order {}", okeys.iter().map(|t| format!("A{}:-", tag_hex(*t))).collect::<Vec<_>>().join(" "));
            s.case("ordered_tags", oreq, join(&order.iter().map(|t| tag_hex(*t)).collect::<Vec<_>>()));
            oracles(s, ops, out);
            // insertion-order independence: the final map added in a shuffled order, no copies
            let expect = expected_map(ops);
            let mut adds: Vec<Op> = expect.iter().map(|(t, d)| Op::Add(*t, d.clone())).collect();
            rng.shuffle(&mut adds);
            let r2 = real_build(&adds);
            let same = matches!(&r2, Ok((_, out2)) if out2 == out);
            s.oracle("insertion-order-independent", same, || describe(ops), || format!("shuffled adds: {}", describe(&adds)));
            // copy-missing never overrides: copying any font afterwards changes nothing that exists
            if !pools.built.is_empty() && rng.chance(1, 3) {
                let src = rng.pick(&pools.built).clone();
                let mut ops3 = ops.to_vec();
                ops3.push(Op::Copy(src));
                if let Ok((_, out3)) = real_build(&ops3) {
                    if let Ok(f3) = FontRef::new(&out3) {
                        let ok = expect.iter().all(|(t, d)| f3.table_data(*t).map(|g| same_but_adjustment(*t, d, g.as_bytes())).unwrap_or(false));
                        s.oracle("copy-missing-never-overrides", ok, || describe(&ops3), String::new);
                    } else {
                        s.oracle("copy-missing-never-overrides", false, || describe(&ops3), || "does not open".into());
                    }
                    if out3.len() < 3000 {
                        s.case("build", format!("sfnt.build {}", ops_str(&ops3)), hex(&out3));
                    }
                }
            }
            if read_too && out.len() < 20000 {
                let mut tags: Vec<Tag> = keys.clone();
                tags.extend(absent_probes(&keys));
                let treq: Vec<String> = tags.iter().map(|t| tag_hex(*t)).collect();
                s.case("open", format!("sfnt.open {}", hex(out)), open_str(out));
                s.case("table_data", format!("sfnt.read {} {}", hex(out), treq.join(" ")), read_str(out, &tags));
                // damaged variant
                let bad = damage(rng, out);
                let o = open_str(&bad);
                s.count(&format!("damaged-open:{}", o.split(' ').next().unwrap_or("")));
                s.case("open-damaged", format!("sfnt.open {}", hex(&bad)), o);
                s.case("table_data-damaged", format!("sfnt.read {} {}", hex(&bad), treq.join(" ")), read_str(&bad, &tags));
            }
            if out.len() < 6000 && pools.built.len() < 400 {
                pools.built.push(out.clone());
            } else if out.len() < 6000 && rng.chance(1, 8) {
                let i = rng.below(pools.built.len() as u64) as usize;
                pools.built[i] = out.clone();
            }
        }
    }
}

fn main() {
    fv_harness::main_with("C06", run);
}

fn run(cfg: &Config, s: &mut Session) {
    let mut rng = Rng::new(cfg.seed);
    let specials = special_tags();
    let real: Vec<&'static [u8]> = [
        font_test_data::SIMPLE_GLYF,
        font_test_data::CUBIC_GLYF,
        font_test_data::NAMES_ONLY,
        font_test_data::CMAP12_FONT1,
        font_test_data::VORG,
        font_test_data::CHARSTRING_PATH_OPS,
        font_test_data::GLYF_COMPONENTS,
        font_test_data::STARTING_OFF_CURVE,
    ]
    .into_iter()
    .filter(|f| f.len() < 12000)
    .collect();
    s.notes.push(format!("real copy sources: {} fonts, sizes {:?}", real.len(), real.iter().map(|f| f.len()).collect::<Vec<_>>()));
    let mut pools = Pools { built: vec![], real };

    // 1. fixed boundary cases ------------------------------------------------
    // head lengths around the 12-byte rewrite threshold, alone and with company, every residue
    for len in 0..=20usize {
        let d: Vec<u8> = (0..len as u8).map(|i| i.wrapping_mul(37).wrapping_add(200)).collect();
        do_case(s, &mut rng, &[Op::Add(HEAD, d.clone())], &mut pools, true);
        do_case(s, &mut rng, &[Op::Add(Tag::new(b"glyf"), vec![0xFF; len]), Op::Add(HEAD, d.clone()), Op::Add(Tag::new(b"DSIG"), vec![0xFF; (len * 7) % 9])], &mut pools, true);
        do_case(s, &mut rng, &[Op::Add(Tag::new(b"zzzz"), vec![0xFF; len])], &mut pools, true);
    }
    // every recommended tag at once (both orders), plus extras and DSIG
    for with_cff in [false, true] {
        let mut ops: Vec<Op> = specials.iter().filter(|t| with_cff || **t != Tag::new(b"CFF ")).map(|t| { let l = 1 + rng.below(9) as usize; Op::Add(*t, rng.bytes(l)) }).collect();
        rng.shuffle(&mut ops);
        do_case(s, &mut rng, &ops, &mut pools, true);
    }
    // table counts: search-range fields at every count up to 70, then around powers of two
    let mut counts: Vec<usize> = (0..=70).collect();
    for p in [128usize, 256, 512, 1024, 2048] {
        counts.extend([p - 1, p, p + 1]);
    }
    // 4096: search_range stops fitting the u16 field (was the panic of SearchRange::compute before
    // /repo 0cd8c18); 2^k + 4096: range_shift stops fitting; 65535: the u16 numTables limit
    counts.extend([4094usize, 4095, 4096, 4097, 5000, 8191, 8192, 12287, 12288, 65535]);
    if cfg.thorough() {
        counts.extend((71..=300).step_by(1));
        counts.extend([8193usize, 12289, 16383, 16384, 20479, 20480, 32767, 32768, 36863, 36864, 65534, 65536]);
    }
    for n in counts {
        let mut ops: Vec<Op> = (0..n as u32)
            .map(|i| Op::Add(Tag::from_be_bytes((0x4100_0000u32 + i * 3).to_be_bytes()), if n <= 70 { vec![i as u8; (i % 5) as usize] } else { vec![] }))
            .collect();
        if n > 300 {
            // descending insertion: the model's association-list insert is then O(1) per add (ascending
            // insertion of 65535 tags costs it 2·10^9 steps); the real BTreeMap does not care, and the
            // shuffled rebuild in do_case covers other insertion orders on the real side
            ops.reverse();
            // a head table takes part in the big directories too (whole-file checksum over a saturated header)
            if n % 2 == 0 && n < 65535 {
                ops.pop();
                ops.push(Op::Add(HEAD, (0..54u8).collect()));
            }
        }
        s.count(match n { 0..=4095 => "count<4096", 4096..=65535 => "count:4096..=65535", _ => "count>65535" });
        do_case(s, &mut rng, &ops, &mut pools, n <= 70);
    }
    // copy from real fonts: everything missing, then partly supplied
    for i in 0..pools.real.len() {
        let src = pools.real[i].to_vec();
        do_case(s, &mut rng, &[Op::Copy(src.clone())], &mut pools, false);
        do_case(s, &mut rng, &[Op::Add(HEAD, vec![0xAA; 54]), Op::Add(Tag::new(b"glyf"), vec![1, 2, 3]), Op::Copy(src.clone()), Op::Add(Tag::new(b"name"), vec![])], &mut pools, false);
    }

    // 2. random histories -----------------------------------------------------
    let n_small = if cfg.thorough() { 40_000 } else { 4_000 };
    let n_large = if cfg.thorough() { 600 } else { 40 };
    for i in 0..n_small {
        let ops = gen_ops(&mut rng, &specials, &pools, false);
        do_case(s, &mut rng, &ops, &mut pools, i % 2 == 0);
    }
    for _ in 0..n_large {
        let ops = gen_ops(&mut rng, &specials, &pools, true);
        do_case(s, &mut rng, &ops, &mut pools, false);
    }

    // 3. checksum kernel alone: lengths 0..40 at every residue, carry patterns ---------------
    for len in 0..=40usize {
        for _ in 0..4 {
            let d = gen_bytes(&mut rng, len);
            let c = read_fonts::tables::compute_checksum(&d);
            s.case("checksum", format!("sfnt.checksum {}", hex(&d)), c.to_string());
            s.oracle("checksum=independent-sum", c == ref_checksum(&d), || hex(&d), || format!("{c}"));
        }
    }
    for _ in 0..(if cfg.thorough() { 4000 } else { 400 }) {
        let len = gen_len(&mut rng, false);
        let d = gen_bytes(&mut rng, len);
        let c = read_fonts::tables::compute_checksum(&d);
        s.case("checksum", format!("sfnt.checksum {}", hex(&d)), c.to_string());
        s.oracle("checksum=independent-sum", c == ref_checksum(&d), || hex(&d), || format!("{c}"));
        // the aligned-concatenation law on the real function
        let cut = (rng.below(len as u64 / 4 + 1) * 4) as usize;
        let (a, b) = d.split_at(cut.min(len));
        let law = read_fonts::tables::compute_checksum(a).wrapping_add(read_fonts::tables::compute_checksum(b));
        s.oracle("checksum-aligned-concat", law == c, || format!("{} | {}", hex(a), hex(b)), || format!("{law} vs {c}"));
    }
}
