//! dev-only binary: runs just the `files` part of C01 (same module file as bin `c01`).
use fv_harness::common::*;
#[path = "c01/files.rs"]
mod files;
fn run(cfg: &Config, s: &mut Session) { files::run(cfg, s) }
fn main() { fv_harness::main_with("C01", run) }
