//! C11 — `Fvar::user_to_normalized` as a whole: several settings (repeated / unknown tags, duplicate
//! axis tags, output slice shorter / longer than the axis list) and the avar version 2 step
//! (axis index map + ItemVariationStore, float delta, clamp).  avar tables are assembled by hand.
//!
//! Correspondence: `norm.all` (Model/Normalize.lean `userToNormalizedAll`, Model/FloatDelta.lean
//! `applyAvar2`).  Oracles (model independent): last setting of a tag wins, untouched axes are 0,
//! excess slots are 0, avar-2 result in [-1, 1], avar-2 with a null / all-zero store = version 1,
//! avar-2 result = clamp(round(v1 + Σ δ·tent)) with exact i128 rationals (up to the documented
//! float slack of 1/64 unit around rounding ties).
use super::*;

pub struct AvarSpec {
    pub version: (u16, u16),
    pub maps: Vec<Vec<(i16, i16)>>,
    /// axisCount field of the header (normally maps.len())
    pub axis_count: u16,
    /// index map: 0 = NULL offset, 1 = table, 2 = offset beyond the table
    pub map_mode: u8,
    pub map_bytes: Vec<u8>,
    /// store: 0 = NULL, 1 = table, 2 = offset beyond the table
    pub store_mode: u8,
    pub store: Option<RawStore>,
}

impl AvarSpec {
    pub fn to_bytes(&self) -> Vec<u8> {
        let mut out = vec![];
        out.extend_from_slice(&self.version.0.to_be_bytes());
        out.extend_from_slice(&self.version.1.to_be_bytes());
        out.extend_from_slice(&0u16.to_be_bytes());
        out.extend_from_slice(&self.axis_count.to_be_bytes());
        for m in &self.maps {
            out.extend_from_slice(&(m.len() as u16).to_be_bytes());
            for (f, t) in m {
                out.extend_from_slice(&f.to_be_bytes());
                out.extend_from_slice(&t.to_be_bytes());
            }
        }
        if self.version.0 == 2 {
            let header_end = out.len() + 8;
            let store_bytes = self.store.as_ref().map(|s| s.to_bytes()).unwrap_or_default();
            let map_off: u32 = match self.map_mode { 0 => 0, 1 => header_end as u32, _ => 0x00FF_FFFF };
            let store_off: u32 = match self.store_mode {
                0 => 0,
                1 => (header_end + if self.map_mode == 1 { self.map_bytes.len() } else { 0 }) as u32,
                _ => 0x00FF_FFF0,
            };
            out.extend_from_slice(&map_off.to_be_bytes());
            out.extend_from_slice(&store_off.to_be_bytes());
            if self.map_mode == 1 {
                out.extend_from_slice(&self.map_bytes);
            }
            if self.store_mode == 1 {
                out.extend_from_slice(&store_bytes);
            }
        } else if self.version != (1, 0) {
            // other versions carry no extra fields; trailing garbage must be ignored
            out.extend_from_slice(&[0, 0, 0, 8, 0, 0, 0, 8]);
        }
        out
    }
}

fn tag_u32(t: Tag) -> u32 {
    u32::from_be_bytes(t.to_be_bytes())
}

pub fn build_fvar_font(axes: &[(Tag, i32, i32, i32)], avar: Option<&[u8]>) -> Result<Vec<u8>, String> {
    use write_fonts::tables::fvar;
    let recs: Vec<fvar::VariationAxisRecord> = axes
        .iter()
        .enumerate()
        .map(|(i, (t, a, b, c))| fvar::VariationAxisRecord::new(*t, Fixed::from_bits(*a), Fixed::from_bits(*b), Fixed::from_bits(*c), 0, NameId::new(256 + i as u16)))
        .collect();
    let f = fvar::Fvar::new(fvar::AxisInstanceArrays::new(recs, vec![]));
    let mut fb = write_fonts::FontBuilder::new();
    fb.add_table(&f).map_err(|e| e.to_string())?;
    if let Some(a) = avar {
        fb.add_raw(Tag::new(b"avar"), a.to_vec());
    }
    Ok(fb.build())
}

fn gen_axis(rng: &mut Rng) -> (i32, i32, i32) {
    let mut t = [rng.range(-1000, 1000) as i32 * 65536, rng.range(-1000, 1000) as i32 * 65536 + rng.below(65536) as i32, rng.range(-1000, 1000) as i32 * 65536];
    if rng.chance(5, 6) {
        t.sort();
    }
    if rng.chance(1, 8) { t[1] = t[0]; }
    if rng.chance(1, 8) { t[1] = t[2]; }
    (t[0], t[1], t[2])
}

/// a store whose regions live in `n_axes`-dimensional space, with `items` rows in subtable 0
fn gen_avar2_store(rng: &mut Rng, n_axes: usize, items: usize, mag: u64) -> RawStore {
    let n_regions = rng.range(1, 4) as usize;
    let store_axes = match rng.below(8) { 0 => n_axes.saturating_sub(1).max(1), 1 => n_axes + 1, _ => n_axes.max(1) };
    let regions: Vec<Region> = (0..n_regions)
        .map(|_| {
            let mut r: Region = vec![(0, 0, 0); store_axes];
            // one or two active axes per region
            for _ in 0..rng.range(1, 2) {
                let ai = rng.below(store_axes as u64) as usize;
                r[ai] = if rng.chance(5, 6) { valid_axis(rng) } else { any_axis(rng) };
            }
            r
        })
        .collect();
    let mut subs = vec![];
    let n_sub = rng.range(1, 2) as usize;
    for _ in 0..n_sub {
        if rng.chance(1, 10) {
            subs.push(None);
            continue;
        }
        let k = rng.range(1, n_regions as i64) as usize;
        let mut ris: Vec<u16> = (0..n_regions as u16).collect();
        rng.shuffle(&mut ris);
        ris.truncate(k);
        if rng.chance(1, 20) {
            ris[0] = n_regions as u16 + 1; // region index out of range => compute_float_delta errs
        }
        let long = mag >= 3;
        let wdc: u16 = if long { 0x8000 | k as u16 } else { k as u16 };
        let mut data = vec![];
        for _ in 0..items {
            for _ in 0..k {
                let d: i32 = match mag {
                    0 => 0,
                    1 => rng.range(-300, 300) as i32,
                    2 => *rng.pick(&[8192i32, -8192, 16384, -16384, 4096, 1, -1, 12000, -20000, 32767, -32768]),
                    _ => *rng.pick(&[40000i32, -40000, 65536, -70000, i32::MAX, i32::MIN, 100000]),
                };
                if long { data.extend_from_slice(&d.to_be_bytes()) } else { data.extend_from_slice(&(d as i16).to_be_bytes()) }
            }
        }
        subs.push(Some(RawSub { item_count: items as u16, wdc, region_indexes: ris, data }));
    }
    RawStore { axis_count: store_axes as u16, regions, subs }
}

fn push_store(req: &mut String, st: &RawStore) {
    req.push(' ');
    req.push_str(&st.req_prefix());
}

/// the `norm.all` request
#[allow(clippy::too_many_arguments)]
fn norm_all_req(axes: &[(Tag, i32, i32, i32)], maps: Option<&[Vec<(i16, i16)>]>, a2: Option<(Option<(u8, u32, Vec<u8>)>, Option<&RawStore>)>, settings: &[(Tag, i32)], out_len: usize) -> String {
    let mut req = format!("norm.all {}", axes.len());
    for (t, a, b, c) in axes {
        req.push_str(&format!(" {} {a} {b} {c}", tag_u32(*t)));
    }
    match maps {
        None => req.push_str(" 0"),
        Some(ms) => {
            req.push_str(&format!(" 1 {}", ms.len()));
            for m in ms {
                req.push_str(&format!(" {}", m.len()));
                for (f, t) in m {
                    req.push_str(&format!(" {f} {t}"));
                }
            }
        }
    }
    match a2 {
        None => req.push_str(" 0"),
        Some((map, store)) => {
            req.push_str(" 1");
            match map {
                None => req.push_str(" 0"),
                Some((fmt, cnt, data)) => {
                    req.push_str(&format!(" 1 {fmt} {cnt} {}", data.len()));
                    for b in data {
                        req.push_str(&format!(" {b}"));
                    }
                }
            }
            match store {
                None => req.push_str(" 0"),
                Some(st) => {
                    req.push_str(" 1");
                    push_store(&mut req, st);
                }
            }
        }
    }
    req.push_str(&format!(" {}", settings.len()));
    for (t, v) in settings {
        req.push_str(&format!(" {} {v}", tag_u32(*t)));
    }
    req.push_str(&format!(" {out_len}"));
    req
}

/// exact Σ δ·Π tent as a rational (N, D), None when too large or the row cannot be evaluated
fn exact_delta(st: &RawStore, outer: usize, inner: usize, coords: &[i16]) -> Option<(i128, i128)> {
    let sub = match st.subs.get(outer)? { Some(s) => s, None => return Some((0, 1)) };
    let long = sub.wdc & 0x8000 != 0;
    let k = sub.region_indexes.len();
    if (sub.wdc & 0x7FFF) as usize != k {
        return None;
    }
    let w = if long { 4 } else { 2 };
    let row = k * w;
    let off = row * inner;
    if off + row > sub.data.len() || inner >= sub.item_count as usize {
        return if off >= sub.data.len() { Some((0, 1)) } else { None };
    }
    let (mut n, mut d): (i128, i128) = (0, 1);
    for (j, ri) in sub.region_indexes.iter().enumerate() {
        let b = &sub.data[off + j * w..off + (j + 1) * w];
        let delta: i128 = if long { i32::from_be_bytes([b[0], b[1], b[2], b[3]]) as i128 } else { i16::from_be_bytes([b[0], b[1]]) as i128 };
        let region = st.regions.get(*ri as usize)?;
        let (_, prod, _) = spec_scalar(region, coords);
        let (pn, pd) = prod?;
        // n/d + delta*pn/pd
        n = n.checked_mul(pd)?.checked_add(delta.checked_mul(pn)?.checked_mul(d)?)?;
        d = d.checked_mul(pd)?;
        if d > (1i128 << 90) {
            return None;
        }
    }
    Some((n, d))
}

pub fn run_settings(cfg: &Config, s: &mut Session, rng: &mut Rng) {
    use skrifa::MetadataProvider;
    let n = if cfg.thorough() { 6000 } else { 700 };
    let tag_pool = [Tag::new(b"wght"), Tag::new(b"wdth"), Tag::new(b"opsz"), Tag::new(b"slnt"), Tag::new(b"AAAA")];
    let unknown = Tag::new(b"zzzz");
    for t in 0..n {
        let n_axes = match rng.below(40) { 0 => 0, 1 => 64, 2 => 65, 3 => 70, _ => rng.range(1, 5) as usize };
        let n_tags = rng.range(1, 5) as usize;
        let axes: Vec<(Tag, i32, i32, i32)> = (0..n_axes)
            .map(|i| {
                let (a, b, c) = gen_axis(rng);
                // few distinct tags: duplicate axis tags are frequent; beyond 5 axes make most tags unique
                let tag = if i >= 5 && rng.chance(9, 10) { Tag::new(&[b'x', b'0' + (i / 10) as u8, b'0' + (i % 10) as u8, b'_']) } else { tag_pool[rng.below(n_tags as u64) as usize] };
                (tag, a, b, c)
            })
            .collect();
        let distinct_tags: BTreeSet<u32> = axes.iter().map(|a| tag_u32(a.0)).collect();
        s.count(if distinct_tags.len() < axes.len() { "settings:duplicate-axis-tags" } else { "settings:distinct-axis-tags" });
        // avar
        let avar_kind = t % 4; // 0 none, 1 version 1, 2/3 version 2 (sometimes another version)
        let n_maps = match rng.below(6) { 0 => n_axes.saturating_sub(1), 1 => n_axes + 1, _ => n_axes };
        let maps: Vec<Vec<(i16, i16)>> = (0..n_maps).map(|_| if rng.chance(4, 5) { gen_valid_map(rng) } else { (0..rng.range(0, 4)).map(|_| (rand_f2(rng), rand_f2(rng))).collect() }).collect();
        let version = match avar_kind { 1 => (1, 0), _ => match rng.below(12) { 0 => (1, 1), 1 => (3, 0), 2 => (2, 1), _ => (2, 0) } };
        let mag = rng.below(4);
        let items = match rng.below(6) { 0 => n_axes.saturating_sub(1).max(1), _ => n_axes.max(1) + rng.below(2) as usize };
        let store = if n_axes <= 8 { gen_avar2_store(rng, n_axes, items.min(12), mag) } else { gen_avar2_store(rng, n_axes, n_axes, mag) };
        // axis index map (written with write-fonts, arbitrary targets)
        let map_entries: Vec<u32> = (0..rng.range(1, n_axes.max(1) as i64 + 1)).map(|_| ((rng.below(store.subs.len() as u64 + 1) as u32) << 16) | rng.below(items as u64 + 1) as u32).collect();
        let map_bytes = { let w: WDsim = map_entries.iter().copied().collect(); write_fonts::dump_table(&w).unwrap_or_default() };
        let spec = AvarSpec {
            version,
            axis_count: n_maps as u16,
            maps: maps.clone(),
            map_mode: match rng.below(8) { 0 | 1 | 2 => 0, 3 => 2, _ => 1 },
            map_bytes,
            store_mode: match rng.below(10) { 0 => 0, 1 => 2, _ => 1 },
            store: Some(store),
        };
        let avar_bytes = spec.to_bytes();
        let font = match build_fvar_font(&axes, if avar_kind == 0 { None } else { Some(&avar_bytes) }) {
            Ok(f) => f,
            Err(e) => {
                s.oracle("var-font-builds", false, || format!("axes={axes:?}"), || e.clone());
                continue;
            }
        };
        let Ok(fref) = FontRef::new(&font) else { continue };
        let Ok(fvar) = fref.fvar() else { s.count("settings:fvar-unreadable"); continue };
        let avar = fref.avar().ok();
        if avar_kind != 0 && avar.is_none() {
            s.count("settings:avar-unreadable");
        }
        // the reader's view of the version-2 tables
        let is_v2 = avar.as_ref().map(|a| a.version().major == 2).unwrap_or(false);
        let view_map: Option<(u8, u32, Vec<u8>)> = avar.as_ref().and_then(|a| match a.axis_index_map() {
            Some(Ok(RDsim::Format0(f))) => Some((f.entry_format().bits(), f.map_count() as u32, f.map_data().to_vec())),
            Some(Ok(RDsim::Format1(f))) => Some((f.entry_format().bits(), f.map_count(), f.map_data().to_vec())),
            _ => None,
        });
        let view_store: Option<RawStore> = avar.as_ref().and_then(|a| match a.var_store() {
            Some(Ok(_)) => {
                // re-read from the bytes we wrote (the reader resolved the offset we computed)
                if spec.store_mode == 1 { spec.store.clone() } else { None }
            }
            _ => None,
        });
        if avar_kind >= 2 {
            s.count(&format!("avar2:version={}.{} map={} store={}", version.0, version.1, match (&view_map, spec.map_mode) { (Some(_), _) => "table", (None, 0) => "null", _ => "unreadable" }, match (&view_store, spec.store_mode) { (Some(_), _) => "table", (None, 0) => "null", _ => "unreadable" }));
        }
        // a version-1 copy of the same table: the reference for the identity oracles
        let v1_font = if avar_kind >= 2 {
            let mut b = avar_bytes.clone();
            b[0] = 0; b[1] = 1; b[2] = 0; b[3] = 0;
            build_fvar_font(&axes, Some(&b)).ok()
        } else { None };
        let all_tags: Vec<Tag> = axes.iter().map(|a| a.0).collect();
        for rep in 0..3 {
            // version-2 trials mostly set every axis (so that the store is evaluated away from the origin)
            let full = avar_kind >= 2 && n_axes <= 8 && rng.chance(3, 4);
            let k = if full { n_axes + rng.below(3) as usize } else { rng.range(0, 6) as usize };
            let mut order: Vec<usize> = (0..n_axes).collect();
            rng.shuffle(&mut order);
            let settings: Vec<(Tag, i32)> = (0..k)
                .map(|si| {
                    if axes.is_empty() || rng.chance(1, if full { 20 } else { 8 }) {
                        return (unknown, rng.range(-100, 100) as i32 * 65536);
                    }
                    let ai = if full && si < n_axes { order[si] } else { rng.below(n_axes as u64) as usize };
                    let (_, a, b, c) = axes[ai];
                    let v = match rng.below(6) { 0 => a, 1 => b, 2 => c, 3 => ((a as i64 + b as i64) / 2) as i32, 4 => ((b as i64 + c as i64) / 2) as i32, _ => rng.range(a.min(c) as i64 - 70000, a.max(c) as i64 + 70000) as i32 };
                    (axes[ai].0, v >> 8 << 8)
                })
                .collect();
            let out_len = match (rep + rng.below(3)) % 5 { 0 => n_axes.saturating_sub(1), 1 => n_axes + 2, 2 => 0, _ => n_axes };
            let call = |fvar: &read_fonts::tables::fvar::Fvar, avar: Option<&read_fonts::tables::avar::Avar>, settings: &[(Tag, i32)], out_len: usize| {
                catch(|| {
                    let mut out = vec![F2Dot14::from_bits(0x1234); out_len]; // garbage: must be overwritten
                    fvar.user_to_normalized(avar, settings.iter().map(|(t, v)| (*t, Fixed::from_bits(*v))), &mut out);
                    out.iter().map(|x| x.to_bits()).collect::<Vec<i16>>()
                })
            };
            let got = call(&fvar, avar.as_ref(), &settings, out_len);
            let a2 = if is_v2 { Some((view_map.clone(), view_store.as_ref())) } else { None };
            let req = norm_all_req(&axes, avar.as_ref().map(|_| &maps[..]), a2, &settings, out_len);
            s.case("Fvar::user_to_normalized(settings, avar 1/2)", req, match &got { Ok(o) => join(o), Err(_) => "trap".into() });
            s.count(if out_len < n_axes { "settings:out-shorter" } else if out_len > n_axes { "settings:out-longer" } else { "settings:out-exact" });
            let input = || format!("axes={axes:?} avar={} settings={settings:?} out_len={out_len}", if avar.is_some() { format!("v{}.{} {}", version.0, version.1, hex(&avar_bytes)) } else { "-".into() });
            s.oracle("user_to_normalized-total", got.is_ok(), input, || format!("{got:?}"));
            let Ok(o) = &got else { continue };
            s.oracle("user_to_normalized-keeps-slice-length", o.len() == out_len, input, || format!("{o:?}"));
            // last setting of each tag alone gives the same result
            let mut last: Vec<(Tag, i32)> = vec![];
            for (t, v) in settings.iter().rev() {
                if !last.iter().any(|(lt, _)| lt == t) {
                    last.push((*t, *v));
                }
            }
            rng.shuffle(&mut last); // order of distinct tags must not matter either
            let only_last = call(&fvar, avar.as_ref(), &last, out_len);
            s.oracle("user_to_normalized-repeated-axis-last-setting-wins", only_last.as_ref() == Ok(o), input, || format!("all {o:?} vs last-only {only_last:?}"));
            s.oracle("user_to_normalized-excess-slots-are-0", o.iter().skip(n_axes).all(|x| *x == 0), input, || format!("{o:?}"));
            if !is_v2 {
                let ok = o.iter().enumerate().all(|(j, x)| j >= n_axes || settings.iter().any(|(t, _)| *t == all_tags[j]) || *x == 0);
                s.oracle("user_to_normalized-untouched-axes-are-0", ok, input, || format!("{o:?}"));
                // every slot, from the per-axis pieces (which have their own exact oracles): duplicate axis tags
                // must ALL be written, each with its own record / segment map
                let recs = fvar.axes().unwrap();
                for (j, x) in o.iter().enumerate().take(n_axes) {
                    let want = match settings.iter().rev().find(|(t, _)| *t == all_tags[j]) {
                        None => 0i16,
                        Some((_, v)) => {
                            let c = recs[j].normalize(Fixed::from_bits(*v));
                            let c = avar.as_ref().and_then(|a| a.axis_segment_maps().get(j).transpose().ok().flatten()).map(|m| m.apply(c)).unwrap_or(c);
                            c.to_f2dot14().to_bits()
                        }
                    };
                    s.oracle("user_to_normalized-slot=avar(normalize(axis,last value of its tag))", *x == want, input, || format!("slot {j}: got {x} want {want}"));
                }
                // every axis sharing a tag gets its own normalisation of the same value
                for (j, x) in o.iter().enumerate().take(n_axes) {
                    if let Some((_, v)) = settings.iter().rev().find(|(t, _)| *t == all_tags[j]) {
                        let single = call(&fvar, avar.as_ref(), &[(all_tags[j], *v)], n_axes);
                        s.oracle("user_to_normalized-slot=single-setting-result", single.as_ref().map(|r| r[j]) == Ok(*x), input, || format!("slot {j}: {x} vs {single:?}"));
                    }
                }
            } else if let Some(Ok(v1fref)) = v1_font.as_ref().map(|f| FontRef::new(f)) {
                // reference: the same table read as version 1
                let v1 = call(&v1fref.fvar().unwrap(), v1fref.avar().ok().as_ref(), &settings, out_len);
                let Ok(v1) = v1 else { continue };
                let active = n_axes.min(out_len);
                // (a slot the store does not reach keeps its version-1 value, which an invalid segment map may have put outside [-1, 1])
                s.oracle("avar2-result-in-[-1,1]", active > 64 || o.iter().zip(&v1).take(active).all(|(x, v)| (-16384..=16384).contains(x) || x == v), input, || format!("{o:?} (v1 {v1:?})"));
                if active > 64 {
                    s.count("avar2:more-than-64-axes-skipped");
                    s.oracle("avar2-skipped-beyond-64-axes", *o == v1, input, || format!("{o:?} vs v1 {v1:?}"));
                    continue;
                }
                let clamp = |x: i16| x.clamp(-16384, 16384);
                let zero_store = view_store.as_ref().map(|st| st.subs.iter().flatten().all(|sb| sb.data.iter().all(|b| *b == 0) && sb.region_indexes.iter().all(|r| (*r as usize) < st.regions.len()))).unwrap_or(true);
                if view_store.is_none() {
                    s.oracle("avar2-without-store=version-1", *o == v1, input, || format!("{o:?} vs v1 {v1:?}"));
                } else if zero_store {
                    let want: Vec<i16> = v1.iter().enumerate().map(|(j, x)| if j < active { clamp(*x) } else { *x }).collect();
                    // a slot whose index cannot be resolved keeps its (unclamped) version-1 value
                    let ok = o.iter().zip(&want).zip(&v1).all(|((g, w), v)| g == w || g == v);
                    s.oracle("avar2-all-zero-store=clamped-version-1", ok, input, || format!("{o:?} vs v1 {v1:?}"));
                }
                // exact value: clamp(round(v1 + Σ δ·tent)) up to the float slack
                if let Some(st) = &view_store {
                    let loc: Vec<i16> = v1.iter().take(active).copied().collect();
                    for (j, g) in o.iter().enumerate().take(active) {
                        let ix: Option<(usize, usize)> = match &view_map {
                            Some(_) => avar.as_ref().and_then(|a| a.axis_index_map()?.ok()?.get(j as u32).ok()).map(|d| (d.outer as usize, d.inner as usize)),
                            None => Some((0, j)),
                        };
                        let Some((outer, inner)) = ix else { s.count("avar2:index-unresolved"); continue };
                        let Some((nn, dd)) = exact_delta(st, outer, inner, &loc) else { s.count("avar2:exact-oracle-skipped"); continue };
                        // X = v1 + nn/dd ; accept |g - X| <= 1/2 + 1/64 (before clamping)
                        let x_n = (v1[j] as i128) * dd + nn; // X = x_n / dd
                        let lo = -16384i128;
                        let hi = 16384i128;
                        let ok = if *g as i128 == hi {
                            64 * x_n >= (64 * hi - 33) * dd
                        } else if *g as i128 == lo {
                            64 * x_n <= (64 * lo + 33) * dd
                        } else {
                            (64 * (*g as i128 * dd - x_n)).abs() <= 33 * dd
                        };
                        s.count(if nn == 0 { "avar2:exact-delta-zero" } else if *g as i128 == hi || *g as i128 == lo { "avar2:clamped" } else { "avar2:exact-delta-nonzero" });
                        s.oracle("avar2=clamp(round(v1+sum(delta*tent)))", ok, || format!("{} | axis {j} v1={} index=({outer},{inner})", input(), v1[j]), || format!("got {g}, exact v1+delta = {x_n}/{dd}"));
                    }
                }
            }
            // skrifa: AxisCollection::location = user_to_normalized on Fixed::from_f64(value as f64), slice length = axis count
            if rep == 0 {
                let fsettings: Vec<(Tag, f32)> = settings.iter().map(|(t, v)| (*t, *v as f32 / 65536.0)).collect();
                let loc = catch(|| fref.axes().location(fsettings.iter().copied()).coords().iter().map(|x| x.to_bits()).collect::<Vec<i16>>());
                let bits: Vec<(Tag, i32)> = fsettings.iter().map(|(t, v)| (*t, Fixed::from_f64(*v as f64).to_bits())).collect();
                let a2 = if is_v2 { Some((view_map.clone(), view_store.as_ref())) } else { None };
                let req = norm_all_req(&axes, avar.as_ref().map(|_| &maps[..]), a2, &bits, n_axes);
                s.case("skrifa AxisCollection::location(settings)", req, match &loc { Ok(o) => join(o), Err(_) => "trap".into() });
            }
        }
    }
}
