//! C11 — the f32 / f64 variation path: `VariationRegion::compute_scalar_f32`,
//! `ItemVariationStore::compute_float_delta`, `apply_float_delta` (F2Dot14 / Fixed / FWord / UfWord)
//! and the raw IEEE operations the model adds for them (Model/IeeeArith.lean: `*`, `/`, `as`).
//! Floats cross the line protocol as bit patterns (arguments) and exact `m·2^e` strings (results).
use super::*;
use read_fonts::tables::variations::{FloatItemDelta, FloatItemDeltaTarget};

#[derive(Clone, Copy, Debug, PartialEq)]
pub enum Fx {
    Nan,
    Inf(bool),
    Fin(bool, u64, i32),
}

pub fn dec32(x: f32) -> Fx {
    let b = x.to_bits();
    let neg = b >> 31 == 1;
    let ex = (b >> 23) & 0xFF;
    let fr = (b & 0x7F_FFFF) as u64;
    match ex {
        0xFF => if fr == 0 { Fx::Inf(neg) } else { Fx::Nan },
        0 => Fx::Fin(neg, fr, -149),
        _ => Fx::Fin(neg, fr | 0x80_0000, ex as i32 - 150),
    }
}

pub fn dec64(x: f64) -> Fx {
    let b = x.to_bits();
    let neg = b >> 63 == 1;
    let ex = (b >> 52) & 0x7FF;
    let fr = b & 0xF_FFFF_FFFF_FFFF;
    match ex {
        0x7FF => if fr == 0 { Fx::Inf(neg) } else { Fx::Nan },
        0 => Fx::Fin(neg, fr, -1074),
        _ => Fx::Fin(neg, fr | (1 << 52), ex as i32 - 1075),
    }
}

/// canonical exact rendering, the same as `FVal.show` of Model/Ieee.lean
pub fn show(v: Fx) -> String {
    match v {
        Fx::Nan => "nan".into(),
        Fx::Inf(n) => if n { "-inf".into() } else { "inf".into() },
        Fx::Fin(n, 0, _) => if n { "-0".into() } else { "0".into() },
        Fx::Fin(n, mut m, mut e) => {
            while m % 2 == 0 {
                m /= 2;
                e += 1;
            }
            format!("{}{}e{}", if n { "-" } else { "" }, m, e)
        }
    }
}

/// the f64 inside a `FloatItemDelta` (private field): its `Debug` output is the shortest
/// representation that parses back to the same f64.
pub fn fid_value(d: FloatItemDelta) -> f64 {
    let t = format!("{d:?}");
    let inner = t.trim_start_matches("FloatItemDelta(").trim_end_matches(')');
    inner.parse::<f64>().expect("FloatItemDelta debug format")
}

fn real_scalar_f32(region: &[Axis], coords: &[i16]) -> Result<f32, String> {
    let axes: Vec<read_fonts::tables::variations::RegionAxisCoordinates> = region
        .iter()
        .map(|(s, p, e)| read_fonts::tables::variations::RegionAxisCoordinates {
            start_coord: BigEndian::from(F2Dot14::from_bits(*s)),
            peak_coord: BigEndian::from(F2Dot14::from_bits(*p)),
            end_coord: BigEndian::from(F2Dot14::from_bits(*e)),
        })
        .collect();
    let cs = coords_f2(coords);
    catch(|| {
        let reg = read_fonts::tables::variations::VariationRegion { region_axes: &axes };
        reg.compute_scalar_f32(&cs)
    })
}

/// a/b (0 < a, 0 < b) correctly rounded to f32 (nearest, ties to even), with u128 integers
fn div_rne_f32(a: u128, b: u128) -> f32 {
    // find e with 2^23 <= a*2^e/b < 2^24
    let mut e: i32 = 0;
    while (a << (e.max(0) as u32)) / b < (1 << 23) {
        e += 1;
    }
    let num = a << e as u32;
    let q = num / b;
    let r = num % b;
    let mut m = q;
    if 2 * r > b || (2 * r == b && q % 2 == 1) {
        m += 1;
    }
    // m * 2^-e, exact in f32 (m <= 2^24, e <= 60)
    (m as f32) * (2.0f32).powi(-e)
}

pub fn scalar_f32_case(s: &mut Session, region: &[Axis], coords: &[i16]) {
    let got = real_scalar_f32(region, coords);
    let mut req = format!("f32.scalar {}", region.len());
    for (a, b, c) in region {
        req.push_str(&format!(" {a} {b} {c}"));
    }
    req.push_str(&format!(" {}", lreq(coords)));
    s.case("compute_scalar_f32", req, match &got { Ok(v) => show(dec32(*v)), Err(_) => "trap".into() });
    let input = || format!("region={region:?} coords={coords:?}");
    let Ok(g) = got else {
        s.oracle("scalar_f32-total", false, input, String::new);
        return;
    };
    s.oracle("scalar_f32-in-[0,1]", (0.0..=1.0).contains(&g), input, || format!("{g:e}"));
    let (fixed, prod, steps) = spec_scalar(region, coords);
    if let Some((n, d)) = prod {
        // zero / one exactly where the specification is
        if n == 0 {
            s.oracle("scalar_f32-zero-outside-support", g == 0.0, input, || format!("{g:e}"));
        }
        if n == d {
            s.oracle("scalar_f32-one-at-peak", g == 1.0, input, || format!("{g:e}"));
        }
        if steps == 1 && n > 0 {
            let want = div_rne_f32(n as u128, d as u128);
            s.oracle("scalar_f32(one axis)=correctly-rounded-quotient", g.to_bits() == want.to_bits(), input, || format!("got {g:e} ({:#x}) want {want:e} ({:#x})", g.to_bits(), want.to_bits()));
        }
        // |g - n/d| <= steps * 2^-23
        if n > 0 && n < (1i128 << 60) && d < (1i128 << 60) {
            if let Fx::Fin(false, m, e) = dec32(g) {
                let ok = if e >= -64 {
                    let sh = (-e) as u32; // e <= 0 for values <= 1 except 1.0 itself (m=2^23,e=-23)
                    let lhs = (m as i128 * d - (n << sh)).abs();
                    // steps * d * 2^(sh-23)
                    let rhs = if sh >= 23 { (steps as i128 * d) << (sh - 23) } else { (steps as i128 * d) >> (23 - sh) };
                    lhs <= rhs
                } else {
                    (n << 23) <= d * (steps as i128 + 1)
                };
                s.oracle("scalar_f32-within-steps*2^-23-of-exact-product", ok, input, || format!("g={g:e} N={n} D={d} steps={steps}"));
            }
        }
        // and it agrees with the 16.16 scalar up to both roundings
        let diff = (g as f64 * 65536.0 - fixed as f64).abs();
        s.oracle("scalar_f32~fixed-scalar", diff <= 0.5 * steps as f64 + 0.01 + 65536.0 * steps as f64 / 8388608.0, input, || format!("g={g:e} fixed={fixed}"));
    }
}

/// `compute_float_delta` on hand-serialised store bytes; also the derived `apply_float_delta`s
pub fn float_delta_case(s: &mut Session, rng: &mut Rng, bytes: &[u8], store: &RawStore, prefix: &str, outer: u16, inner: u16, coords: &[i16]) {
    let r = catch(|| {
        let ivs = RIvs::read(FontData::new(bytes)).ok()?;
        Some(ivs.compute_float_delta(DeltaSetIndex { outer, inner }, &coords_f2(coords)).map(fid_value).map_err(|_| ()))
    });
    let resp = match &r { Ok(Some(Ok(v))) => show(dec64(*v)), Ok(Some(Err(_))) => "err".into(), Ok(None) => return, Err(_) => "trap".into() };
    s.case("compute_float_delta", format!("f32.delta {prefix} {outer} {inner} {}", lreq(coords)), resp);
    let input = || format!("store={} index=({outer},{inner}) coords={coords:?}", hex(bytes));
    s.oracle("compute_float_delta-no-panic", r.is_ok(), input, String::new);
    let Ok(Some(Ok(fd))) = r else { return };
    s.oracle("compute_float_delta-finite", fd.is_finite(), input, || format!("{fd:e}"));
    // the integer path succeeds on exactly the same inputs and agrees up to rounding
    let fixed = real_compute_delta(bytes, outer, inner, coords);
    s.oracle("compute_float_delta-ok-iff-compute_delta-ok", fixed != "err" && fixed != "trap", input, || fixed.clone());
    // exact Σ δ·Π tent
    if let Some(Some(sub)) = store.subs.get(outer as usize) {
        let row = catch(|| {
            let ivs = RIvs::read(FontData::new(bytes)).ok()?;
            let d = ivs.item_variation_data().get(outer as usize)?.ok()?;
            Some(d.delta_set(inner).collect::<Vec<i32>>())
        });
        if let (Ok(Some(row)), false) = (row, coords.is_empty()) {
            let mut exact_all_01 = true;
            let mut int_sum: i128 = 0;
            let mut approx = 0f64;
            let mut tol = 0f64;
            let mut ok_regions = true;
            for (j, d) in row.iter().enumerate() {
                let Some(ri) = sub.region_indexes.get(j) else { ok_regions = false; break };
                let Some(region) = store.regions.get(*ri as usize) else { ok_regions = false; break };
                let (_, prod, steps) = spec_scalar(region, coords);
                match prod {
                    Some((n, dd)) => {
                        if n == 0 {
                        } else if n == dd {
                            int_sum += *d as i128;
                        } else {
                            exact_all_01 = false;
                        }
                        approx += *d as f64 * (n as f64 / dd as f64);
                        tol += (*d as f64).abs() * (steps as f64 + 1.0) * 2f64.powi(-22);
                    }
                    None => { exact_all_01 = false; tol = f64::INFINITY; }
                }
            }
            if ok_regions {
                if exact_all_01 {
                    s.count("float-delta:all-scalars-0-or-1");
                    s.oracle("compute_float_delta=integer-sum(at peaks)", fd == int_sum as f64, input, || format!("got {fd:e} want {int_sum}"));
                    if let Ok(fx) = fixed.parse::<i64>() {
                        if int_sum.abs() < (1 << 31) {
                            s.oracle("compute_float_delta=compute_delta(at peaks)", fd == fx as f64, input, || format!("float {fd:e} fixed {fx}"));
                        }
                    }
                } else if tol.is_finite() {
                    s.count("float-delta:fractional-scalars");
                    s.oracle("compute_float_delta~sum(delta*tent)", (fd - approx).abs() <= tol + approx.abs() * 1e-12, input, || format!("got {fd:e} exact~{approx:e} tol {tol:e}"));
                }
            }
        }
    }
    // apply_float_delta on the four targets
    let d = catch(|| {
        let ivs = RIvs::read(FontData::new(bytes)).unwrap();
        ivs.compute_float_delta(DeltaSetIndex { outer, inner }, &coords_f2(coords)).unwrap()
    });
    let Ok(d) = d else { return };
    let bits = fd.to_bits();
    let f2 = rand_f2(rng);
    let fx: i32 = match rng.below(4) { 0 => *rng.pick(&boundary_i32()), 1 => rng.range(-70000, 70000) as i32, 2 => (rng.next() as i32) >> rng.below(20), _ => rng.range(-40, 40) as i32 * 65536 };
    let w: i16 = rand_f2(rng);
    let u: u16 = rng.next() as u16;
    let r0 = catch(|| F2Dot14::from_bits(f2).apply_float_delta(d));
    let r1 = catch(|| Fixed::from_bits(fx).apply_float_delta(d));
    let r2 = catch(|| font_types::FWord::new(w).apply_float_delta(d));
    let r3 = catch(|| font_types::UfWord::new(u).apply_float_delta(d));
    let sh = |r: &Result<f32, String>| match r { Ok(v) => show(dec32(*v)), Err(_) => "trap".into() };
    s.case("apply_float_delta(F2Dot14)", format!("f32.apply 0 {f2} {bits}"), sh(&r0));
    s.case("apply_float_delta(Fixed)", format!("f32.apply 1 {fx} {bits}"), sh(&r1));
    s.case("apply_float_delta(FWord)", format!("f32.apply 2 {w} {bits}"), sh(&r2));
    s.case("apply_float_delta(UfWord)", format!("f32.apply 2 {u} {bits}"), sh(&r3));
    // value oracles: base + delta in the target's unit, within f32 accuracy
    let close = |got: &Result<f32, String>, a: f64, b: f64| -> bool {
        match got {
            Ok(g) => {
                let want = a + b;
                let tol = 2f64.powi(-23) * (a.abs() + b.abs() + want.abs()) + 1e-45;
                (*g as f64 - want).abs() <= tol
            }
            Err(_) => false,
        }
    };
    s.oracle("apply_float_delta(F2Dot14)~base+delta/16384", close(&r0, f2 as f64 / 16384.0, fd / 16384.0), || format!("{f2} + {fd:e}"), || format!("{r0:?}"));
    s.oracle("apply_float_delta(Fixed)~base+delta/65536", close(&r1, fx as f64 / 65536.0, fd / 65536.0), || format!("{fx} + {fd:e}"), || format!("{r1:?}"));
    s.oracle("apply_float_delta(FWord)~base+delta", close(&r2, w as f64, fd), || format!("{w} + {fd:e}"), || format!("{r2:?}"));
    s.oracle("apply_float_delta(UfWord)~base+delta", close(&r3, u as f64, fd), || format!("{u} + {fd:e}"), || format!("{r3:?}"));
    if fd == 0.0 {
        s.oracle("apply_float_delta(zero)=to_f32", r0 == Ok(F2Dot14::from_bits(f2).to_f32()) && r2 == Ok(w as f32) && r3 == Ok(u as f32), || format!("{f2} {w} {u}"), || format!("{r0:?} {r2:?} {r3:?}"));
    }
}

fn f32_pool(rng: &mut Rng) -> u32 {
    const B: [u32; 22] = [
        0, 0x8000_0000, 1, 2, 0x007F_FFFF, 0x0080_0000, 0x0080_0001, 0x3F80_0000, 0x3F80_0001, 0x3F7F_FFFF, 0x4040_0000, 0x3EAA_AAAB, 0x7F7F_FFFF,
        0x7F80_0000, 0xFF80_0000, 0x7FC0_0000, 0x3F00_0000, 0x4B80_0000, 0x4B7F_FFFF, 0x3380_0000, 0x0040_0000, 0x5F00_0000,
    ];
    match rng.below(4) {
        0 => *rng.pick(&B),
        1 => *rng.pick(&B) ^ 0x8000_0000,
        2 => (rng.range(-40000, 40000) as f32 / 16384.0).to_bits(),
        _ => rng.next() as u32,
    }
}

fn f64_pool(rng: &mut Rng) -> u64 {
    const B: [u64; 16] = [
        0, 1 << 63, 1, 0x000F_FFFF_FFFF_FFFF, 0x0010_0000_0000_0000, 0x3FF0_0000_0000_0000, 0x3FF0_0000_0000_0001, 0x3FD5_5555_5555_5555, 0x7FEF_FFFF_FFFF_FFFF,
        0x7FF0_0000_0000_0000, 0x7FF8_0000_0000_0000, 0x3F10_0000_0000_0000, 0x3EF0_0000_0000_0000, 0x47EF_FFFF_F000_0000, 0x36A0_0000_0000_0000, 0x3810_0000_0000_0000,
    ];
    match rng.below(5) {
        0 => *rng.pick(&B),
        1 => *rng.pick(&B) ^ (1 << 63),
        2 => (rng.range(-1 << 40, 1 << 40) as f64 / 65536.0).to_bits(),
        3 => {
            // f32 values, exact ties of the f64 -> f32 rounding (half an f32 ulp = bit 28) and their neighbours
            let base = (f32::from_bits(rng.next() as u32) as f64).to_bits();
            match rng.below(4) { 0 => base, 1 => base | (1 << 28), 2 => (base | (1 << 28)) + 1, _ => (base | (1 << 28)) - 1 }
        }
        _ => rng.next(),
    }
}

fn canon32(x: f32) -> u32 { if x.is_nan() { 0x7FC0_0000 } else { x.to_bits() } }
fn canon64(x: f64) -> u64 { if x.is_nan() { 0x7FF8_0000_0000_0000 } else { x.to_bits() } }

/// the model's extra IEEE operations against the hardware (which Rust guarantees to be IEEE-754)
pub fn run_ops(cfg: &Config, s: &mut Session, rng: &mut Rng) {
    let n = if cfg.thorough() { 60_000 } else { 6000 };
    for _ in 0..n {
        let (a, b) = (f32_pool(rng), f32_pool(rng));
        let (fa, fb) = (f32::from_bits(a), f32::from_bits(b));
        s.case("ieee f32 mul", format!("f32.op 0 {a} {b}"), canon32(fa * fb).to_string());
        s.case("ieee f32 div", format!("f32.op 1 {a} {b}"), canon32(fa / fb).to_string());
        s.case("ieee f32 as f64", format!("f32.op 5 {a} 0"), canon64(fa as f64).to_string());
        let (c, d) = (f64_pool(rng), f64_pool(rng));
        let (fc, fd) = (f64::from_bits(c), f64::from_bits(d));
        s.case("ieee f64 mul", format!("f32.op 2 {c} {d}"), canon64(fc * fd).to_string());
        s.case("ieee f64 div", format!("f32.op 3 {c} {d}"), canon64(fc / fd).to_string());
        s.case("ieee f64 as f32", format!("f32.op 4 {c} 0"), canon32(fc as f32).to_string());
    }
}

pub fn run_scalar_f32(cfg: &Config, s: &mut Session, rng: &mut Rng) {
    // one axis: boundary grid
    let grid = f2_grid();
    for &st in &grid {
        for &p in &grid {
            for &e in &grid {
                let reg = [(st, p, e)];
                for c in [st, p, e, st.wrapping_add(1), p.wrapping_sub(1), p.wrapping_add(1), e.wrapping_sub(1), ((st as i32 + p as i32) / 2) as i16, ((p as i32 + e as i32) / 2) as i16, 0] {
                    if !cfg.thorough() && rng.chance(1, 2) {
                        continue;
                    }
                    scalar_f32_case(s, &reg, &[c]);
                }
            }
        }
    }
    let n = if cfg.thorough() { 40_000 } else { 5000 };
    for _ in 0..n {
        let k = rng.range(1, 4) as usize;
        let region: Region = (0..k).map(|_| any_axis(rng)).collect();
        let nc = match rng.below(8) { 0 => k - 1, 1 => k + 1, _ => k };
        let coords: Vec<i16> = (0..nc)
            .map(|i| {
                let (a, b, c) = region.get(i).copied().unwrap_or((0, 0, 0));
                match rng.below(6) { 0 => a, 1 => b, 2 => c, 3 => rng.range(a.min(c) as i64, a.max(c) as i64) as i16, 4 => ((a as i32 + b as i32) / 2) as i16, _ => rand_f2(rng) }
            })
            .collect();
        scalar_f32_case(s, &region, &coords);
    }
}

/// `compute_float_delta` away from the origin: valid regions, coordinates inside the supports
/// (legs, peaks, boundaries), 8/16/32-bit deltas
pub fn run_float_delta(cfg: &Config, s: &mut Session, rng: &mut Rng) {
    let n = if cfg.thorough() { 5000 } else { 500 };
    for _ in 0..n {
        let axis_count = rng.range(1, 3) as usize;
        let n_regions = rng.range(1, 5) as usize;
        let regions: Vec<Region> = (0..n_regions)
            .map(|_| (0..axis_count).map(|_| if rng.chance(1, 3) { (0, 0, 0) } else if rng.chance(9, 10) { valid_axis(rng) } else { any_axis(rng) }).collect())
            .collect();
        let mut subs = vec![];
        for _ in 0..rng.range(1, 2) {
            let rc = rng.range(1, n_regions as i64) as usize;
            let mut ris: Vec<u16> = (0..n_regions as u16).collect();
            rng.shuffle(&mut ris);
            ris.truncate(rc);
            let long = rng.chance(1, 3);
            let wl = rng.range(0, rc as i64) as u16;
            let wdc = wl | if long { 0x8000 } else { 0 };
            let item_count = rng.range(1, 3) as usize;
            let mut data = vec![];
            for _ in 0..item_count {
                for c in 0..rc {
                    let wide = (c as u16) < wl;
                    match (wide, long) {
                        (true, true) => data.extend_from_slice(&super::delta_value(rng, 3).to_be_bytes()),
                        (true, false) | (false, true) => data.extend_from_slice(&(super::delta_value(rng, 2) as i16).to_be_bytes()),
                        (false, false) => data.push(super::delta_value(rng, 1) as i8 as u8),
                    }
                }
            }
            subs.push(Some(RawSub { item_count: item_count as u16, wdc, region_indexes: ris, data }));
        }
        let store = RawStore { axis_count: axis_count as u16, regions: regions.clone(), subs };
        let bytes = store.to_bytes();
        let prefix = store.req_prefix();
        for _ in 0..4 {
            // a location inside the support of one of the regions
            let r = &regions[rng.below(n_regions as u64) as usize];
            let coords: Vec<i16> = r
                .iter()
                .map(|(a, b, c)| match rng.below(6) { 0 => *b, 1 => *a, 2 => *c, 3 => ((*a as i32 + *b as i32) / 2) as i16, 4 => ((*b as i32 + *c as i32) / 2) as i16, _ => rng.range(*a.min(c) as i64, *a.max(c) as i64) as i16 })
                .collect();
            let outer = rng.below(store.subs.len() as u64) as u16;
            let inner = rng.below(3) as u16;
            float_delta_case(s, rng, &bytes, &store, &prefix, outer, inner, &coords);
        }
    }
}
