//! C11 — scaled glyph metrics (`Size::fixed_linear_scale`, `FixedScaleFactor::apply` + `to_f32`), the gvar
//! phantom-point fallback (`metric_deltas_from_gvar`, `find_glyph_and_point_count`), HVAR / VVAR / MVAR delta
//! lookup (`advance_delta`, `item_delta`, `Mvar::metric_delta`), vmtx / VORG lookup, and the compiled bytes of
//! an `ItemVariationStore` (writer header / offsets / region list, reader view).
use super::float::{dec32, show};
use super::*;
use skrifa::instance::{LocationRef, Size};
use skrifa::MetadataProvider;

// ------------------------------------------------------------------------------------------
// independent specification arithmetic
// ------------------------------------------------------------------------------------------

/// the 16.16 scale factor, `None` when the `Fixed` division itself leaves the i32 range
fn spec_scale(ppem: Option<f32>, upem: u16) -> Option<i64> {
    match ppem {
        Some(p) if upem > 0 => {
            let p64 = (p * 64.0) as i32 as i128; // primitive IEEE multiply + saturating cast
            let q = (p64.abs() * 65536 + upem as i128 / 2) / upem as i128;
            if q >= (1 << 31) { return None; }
            Some(if p64 < 0 { -q as i64 } else { q as i64 })
        }
        _ => Some(0x10000 * 64),
    }
}

/// `round_half_away(scale * v / 64)` as 16.16 bits, `None` when it does not fit an i32
fn spec_apply(scale: i64, v: i64) -> Option<i64> {
    let p = scale as i128 * v as i128;
    let q = (p.abs() + 32) / 64;
    if q >= (1 << 31) { return None; }
    Some(if p < 0 { -(q as i64) } else { q as i64 })
}

fn ppem_pool(rng: &mut Rng) -> Option<f32> {
    const P: [f32; 22] = [8.0, 9.0, 10.0, 12.0, 12.5, 16.0, 17.3, 24.0, 72.0, 1000.0, 2048.0, 0.0, 0.5, 0.0078125, 1.0e-3, 65536.0, 3.3554432e7, 4.0e7, -12.0, f32::NAN, f32::INFINITY, 1.0e-40];
    match rng.below(8) {
        0 => None,
        1 | 2 => Some(rng.range(1, 400) as f32 / 4.0),
        3 => Some(f32::from_bits(rng.next() as u32)),
        _ => Some(*rng.pick(&P)),
    }
}

struct HFont {
    bytes: Vec<u8>,
    num_glyphs: u16,
    h_metrics: Vec<(u16, i16)>,
    lsbs: Vec<i16>,
    upem: u16,
}

fn metric_req_tail(f: &HFont) -> String {
    let mut t = format!("{}", f.h_metrics.len());
    for (a, l) in &f.h_metrics {
        t.push_str(&format!(" {a} {l}"));
    }
    t.push_str(&format!(" {}", f.lsbs.len()));
    for l in &f.lsbs {
        t.push_str(&format!(" {l}"));
    }
    t
}

fn base_adv(f: &HFont, gid: u32) -> i64 {
    f.h_metrics.get(gid as usize).map(|m| m.0).unwrap_or(f.h_metrics.last().map(|m| m.0).unwrap_or(0)) as i64
}
fn base_lsb(f: &HFont, gid: u32) -> i64 {
    f.h_metrics.get(gid as usize).map(|m| m.1).unwrap_or_else(|| f.lsbs.get(gid as usize - f.h_metrics.len()).copied().unwrap_or(0)) as i64
}

fn show_opt(r: &Result<Option<f32>, String>) -> String {
    match r { Ok(Some(v)) => show(dec32(*v)), Ok(None) => "none".into(), Err(_) => "trap".into() }
}

/// value oracle for one scaled metric: `units` = base + delta in font units
fn scaled_oracle(s: &mut Session, what: &str, got: &Result<Option<f32>, String>, units: i64, ppem: Option<f32>, upem: u16, input: &dyn Fn() -> String) {
    let Some(scale) = spec_scale(ppem, upem) else { s.count("scaled:scale-division-wraps"); return };
    let Some(bits) = spec_apply(scale, units) else { s.count("scaled:16.16-result-wraps"); return };
    let want = bits as i32 as f32 * (1.0 / 65536.0);
    let ok = matches!(got, Ok(Some(g)) if g.to_bits() == want.to_bits());
    s.oracle(&format!("{what}=round(scale*(base+delta)/64)"), ok, input, || format!("got {got:?} want {want:e} (units {units}, scale {scale}, bits {bits})"));
    // and the scale means ppem / upem
    if let (Some(p), Ok(Some(g))) = (ppem, got) {
        if p.is_finite() && p.abs() < 3.0e7 && p.abs() >= 1.0 && upem > 0 {
            let exact = units as f64 * ((p * 64.0) as i32 as f64 / 64.0) / upem as f64;
            // scale is rounded to 2^-16 of a 26.6 unit per font unit; the result to 2^-16 pixel, then to 24 bits
            let tol = (units.abs() as f64 / 128.0 + 0.5) / 65536.0 + exact.abs() * 2f64.powi(-23) + 1e-9;
            s.oracle(&format!("{what}~units*ppem/upem"), (*g as f64 - exact).abs() <= tol, input, || format!("got {g:e} exact {exact:e} tol {tol:e}"));
        }
    }
}

// ------------------------------------------------------------------------------------------
// A. HVAR + scaled sizes
// ------------------------------------------------------------------------------------------

pub fn run_scaled(cfg: &Config, s: &mut Session, rng: &mut Rng) {
    use write_fonts::tables::{head::Head, hhea::Hhea, hmtx, hvar::Hvar, maxp::Maxp};
    let n = if cfg.thorough() { 900 } else { 110 };
    for t in 0..n {
        let num_glyphs = rng.range(1, 8) as u16;
        let n_long = rng.range(1, num_glyphs as i64) as u16;
        let big = t % 6 == 0;
        let h_metrics: Vec<(u16, i16)> = (0..n_long).map(|_| (if big { *rng.pick(&[0u16, 1, 32767, 32768, 65535]) } else { rng.range(0, 4000) as u16 }, rng.range(-500, 500) as i16)).collect();
        let lsbs: Vec<i16> = (0..num_glyphs - n_long).map(|_| if big { *rng.pick(&[i16::MIN, -1, 0, i16::MAX]) } else { rng.range(-500, 500) as i16 }).collect();
        let upem = *rng.pick(&[1000u16, 2048, 16, 16384, 0, 1, 65535, 1024]);
        let regions: Vec<Region> = vec![vec![(0, 16384, 16384)], vec![(-16384, -16384, 0)], vec![(0, 8192, 16384)]];
        let per_glyph: Vec<Vec<(usize, i32)>> = (0..num_glyphs).map(|_| { let mut v = vec![]; for r in 0..3usize { if rng.chance(2, 3) { v.push((r, rng.range(-300, 300) as i32)); } } v }).collect();
        let mode = t % 3; // 0 implicit, 1 advance map, 2 advance + lsb map
        let hv = catch(|| {
            let mut b = if mode == 0 { VariationStoreBuilder::new_with_implicit_indices(1) } else { VariationStoreBuilder::new(1) };
            let ids: Vec<u32> = per_glyph.iter().map(|set| b.add_deltas(set.iter().map(|(r, d)| (w_region(&regions[*r]), *d)).collect::<Vec<_>>())).collect();
            let (store, map) = b.build();
            let dsim = |shift: usize| -> WDsim { ids.iter().cycle().skip(shift).take(ids.len()).map(|id| { let vi = map.get(*id).unwrap(); ((vi.delta_set_outer_index as u32) << 16) | vi.delta_set_inner_index as u32 }).collect() };
            match mode { 0 => Hvar::new(store, None, None, None), 1 => Hvar::new(store, Some(dsim(0)), None, None), _ => Hvar::new(store, Some(dsim(0)), Some(dsim(1)), None) }
        });
        let Ok(hv) = hv else { continue };
        let font = catch(|| {
            let mut fb = write_fonts::FontBuilder::new();
            fb.add_table(&Head { units_per_em: upem, ..Default::default() }).unwrap();
            fb.add_table(&Maxp::new(num_glyphs)).unwrap();
            fb.add_table(&Hhea::new(0.into(), 0.into(), 0.into(), 0.into(), 0.into(), 0.into(), 0.into(), 0, 0, 0, n_long)).unwrap();
            fb.add_table(&hmtx::Hmtx::new(h_metrics.iter().map(|(a, l)| hmtx::LongMetric::new(*a, *l)).collect(), lsbs.clone())).unwrap();
            fb.add_table(&hv).unwrap();
            fb.build()
        });
        let Ok(bytes) = font else { continue };
        let f = HFont { bytes, num_glyphs, h_metrics, lsbs, upem };
        let Ok(fref) = FontRef::new(&f.bytes) else { continue };
        let hvar = fref.hvar().unwrap();
        let tail = metric_req_tail(&f);
        for _ in 0..4 {
            let ppem = ppem_pool(rng);
            let coord: i16 = *rng.pick(&[16384i16, -16384, 8192, 4096, 1, -1, 12288, 0]);
            let coords = [F2Dot14::from_bits(coord)];
            let size = match ppem { Some(p) => Size::new(p), None => Size::unscaled() };
            let gm = fref.glyph_metrics(size, LocationRef::new(&coords));
            s.count(match ppem { None => "scaled:unscaled", Some(p) if !p.is_finite() => "scaled:non-finite-ppem", Some(p) if p <= 0.0 => "scaled:ppem<=0", _ => if upem == 0 { "scaled:upem=0" } else { "scaled:ordinary" } });
            for gid in 0..num_glyphs as u32 + 1 {
                let effective = coord != 0;
                let raw_adv = catch(|| {
                    let ix = match hvar.advance_width_mapping() { Some(Ok(m)) => m.get(gid).ok(), _ => Some(DeltaSetIndex { outer: 0, inner: gid as u16 }) };
                    ix.and_then(|ix| hvar.item_variation_store().ok()?.compute_delta(ix, &coords).ok())
                }).ok().flatten();
                let raw_lsb = catch(|| {
                    let ix = match hvar.lsb_mapping() { Some(Ok(m)) => m.get(gid).ok(), _ => None };
                    ix.and_then(|ix| hvar.item_variation_store().ok()?.compute_delta(ix, &coords).ok())
                }).ok().flatten();
                let adv = catch(|| gm.advance_width(GlyphId::new(gid)));
                let lsb = catch(|| gm.left_side_bearing(GlyphId::new(gid)));
                let (has, pbits) = match ppem { Some(p) => (1, p.to_bits()), None => (0, 0) };
                let req = format!("met.full {has} {pbits} {upem} {num_glyphs} {gid} 1 {} {} {} {} {tail}",
                    if effective && raw_adv.is_some() { 1 } else { 0 }, raw_adv.unwrap_or(0),
                    if effective && raw_lsb.is_some() { 1 } else { 0 }, raw_lsb.unwrap_or(0));
                s.case("GlyphMetrics(size, HVAR)", req, format!("{} {}", show_opt(&adv), show_opt(&lsb)));
                let input = || format!("num_glyphs={num_glyphs} h_metrics={:?} lsbs={:?} upem={upem} mode={mode} deltas={per_glyph:?} | ppem={ppem:?} coord={coord} gid={gid}", f.h_metrics, f.lsbs);
                if gid < num_glyphs as u32 {
                    let sd = |set: Option<&Vec<(usize, i32)>>| -> i64 { match set { Some(set) if effective => spec_delta(&set.iter().map(|(r, d)| (*d as i64, spec_scalar(&regions[*r], &[coord]).0)).collect::<Vec<_>>()), _ => 0 } };
                    scaled_oracle(s, "advance", &adv, base_adv(&f, gid) + sd(per_glyph.get(gid as usize)), ppem, upem, &input);
                    let lsb_units = base_lsb(&f, gid) + if mode == 2 { sd(per_glyph.get((gid as usize + 1) % num_glyphs as usize)) } else { 0 };
                    scaled_oracle(s, "lsb", &lsb, lsb_units, ppem, upem, &input);
                } else {
                    s.oracle("metrics-none-beyond-glyph-count", matches!(&adv, Ok(None)) && matches!(&lsb, Ok(None)), input, || format!("{adv:?} {lsb:?}"));
                }
            }
        }
    }
}

// ------------------------------------------------------------------------------------------
// B. gvar fallback
// ------------------------------------------------------------------------------------------

#[derive(Clone, Debug)]
enum GK {
    Empty,
    Simple(usize),
    Composite(Vec<(u16, bool)>),
}

fn gk_req(gs: &[GK]) -> String {
    let mut t = format!("{}", gs.len());
    for g in gs {
        match g {
            GK::Empty => t.push_str(" 0"),
            GK::Simple(n) => t.push_str(&format!(" 1 {n}")),
            GK::Composite(cs) => {
                t.push_str(&format!(" 2 {}", cs.len()));
                for (g, f) in cs {
                    t.push_str(&format!(" {g} {}", *f as u8));
                }
            }
        }
    }
    t
}

/// the rule of `find_glyph_and_point_count`, restated: follow the first USE_MY_METRICS component
fn spec_find(gs: &[GK], mut gid: usize) -> Option<(usize, usize)> {
    for _depth in 0..=64 {
        match gs.get(gid)? {
            GK::Empty => return Some((gid, 0)),
            GK::Simple(n) => return Some((gid, *n)),
            GK::Composite(cs) => match cs.iter().find(|c| c.1) {
                Some(c) => gid = c.0 as usize,
                None => return Some((gid, cs.len())),
            },
        }
    }
    None
}

struct GvarTuple {
    peak: (i16, i16),
    inter: Option<((i16, i16), (i16, i16))>,
    /// x deltas for every point + 4 phantoms; None = optional (left out if possible)
    xs: Vec<Option<i16>>,
}

fn build_gvar_font(gs: &[GK], tuples: &[Vec<GvarTuple>], h_metrics: &[(u16, i16)], lsbs: &[i16], upem: u16) -> Result<Vec<u8>, String> {
    use read_fonts::tables::glyf::CurvePoint;
    use read_fonts::types::GlyphId16;
    use write_fonts::tables::glyf::{Anchor, Bbox, Component, ComponentFlags, CompositeGlyph, Contour, GlyfLocaBuilder, Glyph, SimpleGlyph, Transform};
    use write_fonts::tables::gvar::{GlyphDelta, GlyphDeltas, GlyphVariations, Gvar, Tent};
    use write_fonts::tables::{head::Head, hhea::Hhea, hmtx::Hmtx, hmtx::LongMetric, maxp::Maxp};
    let mut b = GlyfLocaBuilder::new();
    let bbox = Bbox { x_min: 0, y_min: 0, x_max: 100, y_max: 100 };
    for g in gs {
        match g {
            GK::Empty => b.add_glyph(&Glyph::Empty).map_err(|e| e.to_string())?,
            GK::Simple(n) => {
                let pts: Vec<CurvePoint> = (0..*n as i16).map(|i| CurvePoint::on_curve(10 * i, (i % 3) * 40)).collect();
                let contour: Contour = pts.into();
                b.add_glyph(&Glyph::Simple(SimpleGlyph { bbox, contours: vec![contour], instructions: vec![] })).map_err(|e| e.to_string())?
            }
            GK::Composite(cs) => {
                let mk = |c: &(u16, bool)| Component::new(GlyphId16::new(c.0), Anchor::Offset { x: 1, y: 2 }, Transform::default(), ComponentFlags { use_my_metrics: c.1, ..Default::default() });
                let mut cg = CompositeGlyph::new(mk(&cs[0]), bbox);
                for c in &cs[1..] {
                    cg.add_component(mk(c), bbox);
                }
                b.add_glyph(&Glyph::Composite(cg)).map_err(|e| e.to_string())?
            }
        };
    }
    let (glyf, loca, fmt) = b.build();
    let n = gs.len() as u16;
    let f2 = F2Dot14::from_bits;
    let vars: Vec<GlyphVariations> = tuples
        .iter()
        .enumerate()
        .map(|(g, ts)| {
            GlyphVariations::new(
                GlyphId::new(g as u32),
                ts.iter()
                    .map(|t| {
                        let tents = vec![
                            Tent::new(f2(t.peak.0), t.inter.map(|(a, b)| (f2(a.0), f2(b.0)))),
                            Tent::new(f2(t.peak.1), t.inter.map(|(a, b)| (f2(a.1), f2(b.1)))),
                        ];
                        let ds = t.xs.iter().map(|x| match x { Some(x) => GlyphDelta::required(*x, 0), None => GlyphDelta::optional(0, 0) }).collect();
                        GlyphDeltas::new(tents, ds)
                    })
                    .collect(),
            )
        })
        .collect();
    let gvar = Gvar::new(vars, 2).map_err(|e| format!("{e:?}"))?;
    let head = Head { units_per_em: upem, index_to_loc_format: fmt as i16, ..Default::default() };
    let mut fb = write_fonts::FontBuilder::new();
    fb.add_table(&head).map_err(|e| e.to_string())?;
    fb.add_table(&Maxp::new(n)).map_err(|e| e.to_string())?;
    fb.add_table(&Hhea { number_of_h_metrics: h_metrics.len() as u16, ..Default::default() }).map_err(|e| e.to_string())?;
    fb.add_table(&Hmtx::new(h_metrics.iter().map(|(a, l)| LongMetric::new(*a, *l)).collect(), lsbs.to_vec())).map_err(|e| e.to_string())?;
    fb.add_table(&glyf).map_err(|e| e.to_string())?;
    fb.add_table(&loca).map_err(|e| e.to_string())?;
    fb.add_table(&gvar).map_err(|e| e.to_string())?;
    Ok(fb.build())
}

fn n_positions(g: &GK) -> usize {
    match g { GK::Empty => 0, GK::Simple(n) => *n, GK::Composite(cs) => cs.len() }
}

pub fn run_gvar_metrics(cfg: &Config, s: &mut Session, rng: &mut Rng) {
    let n = if cfg.thorough() { 700 } else { 90 };
    for _ in 0..n {
        let n_glyphs = rng.range(2, 9) as usize;
        let mut gs: Vec<GK> = vec![];
        for g in 0..n_glyphs {
            gs.push(match rng.below(5) {
                0 => GK::Empty,
                1 | 2 => GK::Simple(rng.range(3, 9) as usize),
                _ => {
                    let k = rng.range(1, 4) as usize;
                    let mut cs: Vec<(u16, bool)> = (0..k).map(|_| (rng.below(n_glyphs as u64) as u16, false)).collect();
                    match rng.below(4) {
                        0 => {}
                        1 => { let i = rng.below(k as u64) as usize; cs[i].1 = true; }
                        2 => { for c in cs.iter_mut() { c.1 = rng.chance(1, 2); } }
                        _ => { cs[0] = (g as u16, true); } // a cycle through USE_MY_METRICS: error after 64 levels
                    }
                    GK::Composite(cs)
                }
            });
        }
        // every glyph: tuple 0 identifies (glyph, position) on axis 0; further tuples live on axis 1
        let tuples: Vec<Vec<GvarTuple>> = gs
            .iter()
            .enumerate()
            .map(|(g, k)| {
                let np = n_positions(k) + 4;
                let mut ts = vec![GvarTuple { peak: (16384, 0), inter: None, xs: (0..np).map(|p| Some((g * 64 + p) as i16)).collect() }];
                for _ in 0..rng.range(0, 3) {
                    let peak1 = *rng.pick(&[16384i16, -16384, 8192, -8192, 12000]);
                    let inter = if rng.chance(1, 3) { let lo = if peak1 > 0 { peak1 / 2 } else { -16384 }; let hi = if peak1 > 0 { 16384 } else { peak1 / 2 }; Some(((0, lo), (0, hi))) } else { None };
                    let big = rng.chance(1, 6);
                    let xs = (0..np).map(|p| if p >= np - 4 || rng.chance(1, 2) { Some(if big { *rng.pick(&[32767i16, -32768, 20000, -20000]) } else { rng.range(-400, 400) as i16 }) } else { None }).collect();
                    ts.push(GvarTuple { peak: (0, peak1), inter, xs });
                }
                ts
            })
            .collect();
        let n_long = rng.range(1, n_glyphs as i64) as usize;
        let h_metrics: Vec<(u16, i16)> = (0..n_long).map(|_| (rng.range(0, 3000) as u16, rng.range(-300, 300) as i16)).collect();
        let lsbs: Vec<i16> = (0..n_glyphs - n_long).map(|_| rng.range(-300, 300) as i16).collect();
        let upem = *rng.pick(&[1000u16, 2048]);
        let bytes = match build_gvar_font(&gs, &tuples, &h_metrics, &lsbs, upem) {
            Ok(b) => b,
            Err(e) => { s.oracle("gvar-font-builds", false, || format!("{gs:?}"), || e.clone()); continue }
        };
        let f = HFont { bytes, num_glyphs: n_glyphs as u16, h_metrics, lsbs, upem };
        let Ok(fref) = FontRef::new(&f.bytes) else { continue };
        let (Ok(gvar), Ok(glyf), Ok(loca)) = (fref.gvar(), fref.glyf(), fref.loca(None)) else { s.count("gvar:tables-unreadable"); continue };
        let tail = metric_req_tail(&f);
        let greq = gk_req(&gs);
        for gid in 0..n_glyphs as u32 + 1 {
            // 1. which glyph / where the phantom points start (identification location)
            let idc = [F2Dot14::from_bits(16384), F2Dot14::ZERO];
            let ph = catch(|| gvar.phantom_point_deltas(&glyf, &loca, &idc, GlyphId::new(gid)).map(|o| o.map(|p| [p[0].x.to_bits(), p[1].x.to_bits()])).map_err(|_| ()));
            let found = match &ph { Ok(Ok(Some(p))) => { let v = (p[0] >> 16) as usize; format!("{} {}", v / 64, v % 64) } Ok(Ok(None)) => "nodata".into(), Ok(Err(_)) => "err".into(), Err(_) => "trap".into() };
            let want = spec_find(&gs, gid as usize);
            s.case("find_glyph_and_point_count(via phantom deltas)", format!("gvar.find {greq} {gid}"), found.clone());
            s.oracle("gvar-metrics-glyph=first-USE_MY_METRICS-component", found == want.map(|(g, c)| format!("{g} {c}")).unwrap_or("err".into()), || format!("glyphs={gs:?} gid={gid}"), || format!("{found} want {want:?}"));
            s.count(match (&gs.get(gid as usize), want) { (None, _) => "gvar:gid-beyond", (_, None) => "gvar:cycle-error", (Some(GK::Composite(_)), Some((g, _))) if g != gid as usize => "gvar:composite-redirected", (Some(GK::Composite(_)), _) => "gvar:composite-own", (Some(GK::Empty), _) => "gvar:empty", _ => "gvar:simple" });
            // 2. general locations
            for _ in 0..3 {
                let c0 = *rng.pick(&[0i16, 0, 16384, 8192]);
                let c1 = *rng.pick(&[16384i16, -16384, 8192, -8192, 12000, 4096, 14000, 1, 0, -1]);
                let coords = [F2Dot14::from_bits(c0), F2Dot14::from_bits(c1)];
                let ph = catch(|| gvar.phantom_point_deltas(&glyf, &loca, &coords, GlyphId::new(gid)).map(|o| o.map(|p| (p[0].x.to_bits(), p[1].x.to_bits()))).map_err(|_| ()));
                let ppem = if rng.chance(1, 2) { None } else { ppem_pool(rng) };
                let size = match ppem { Some(p) => Size::new(p), None => Size::unscaled() };
                let gm = fref.glyph_metrics(size, LocationRef::new(&coords));
                let adv = catch(|| gm.advance_width(GlyphId::new(gid)));
                let lsb = catch(|| gm.left_side_bearing(GlyphId::new(gid)));
                let effective = c0 != 0 || c1 != 0;
                let phv = match &ph { Ok(Ok(Some(p))) if effective => Some(*p), _ => None };
                let (has, pbits) = match ppem { Some(p) => (1, p.to_bits()), None => (0, 0) };
                let req = format!("met.full {has} {pbits} {upem} {n_glyphs} {gid} 2 {} {} {} 0 {tail}", phv.is_some() as u8, phv.map(|p| p.0).unwrap_or(0), phv.map(|p| p.1).unwrap_or(0));
                s.case("GlyphMetrics(size, gvar fallback)", req, format!("{} {}", show_opt(&adv), show_opt(&lsb)));
                let input = || format!("glyphs={gs:?} h_metrics={:?} lsbs={:?} upem={upem} | ppem={ppem:?} coords=({c0},{c1}) gid={gid} phantom={ph:?}", f.h_metrics, f.lsbs);
                let mut derived_ok = false;
                if (gid as usize) < n_glyphs {
                    // independent: the resolved glyph's tuples, scalars from the integer tent rule
                    let (d_lsb, d_adv, exact) = match (want, effective) {
                        (Some((g, start)), true) => {
                            let (mut p0, mut p1): (i64, i64) = (0, 0);
                            let mut exact = true;
                            for t in &tuples[g] {
                                // gvar tuple scalar: product over axes with a non-zero peak
                                let mut sc: i64 = 65536;
                                let mut active = true;
                                for (ai, (pk, c)) in [(t.peak.0, c0), (t.peak.1, c1)].into_iter().enumerate() {
                                    if pk == 0 { continue; }
                                    let (pk, c) = (pk as i64 * 4, c as i64 * 4);
                                    if c == pk { continue; }
                                    if c == 0 { active = false; break; }
                                    match t.inter {
                                        Some((lo, hi)) => {
                                            let (lo, hi) = (if ai == 0 { lo.0 } else { lo.1 } as i64 * 4, if ai == 0 { hi.0 } else { hi.1 } as i64 * 4);
                                            if c <= lo || c >= hi { active = false; break; }
                                            sc = if c < pk { round_half_up((sc * (c - lo)) as i128, (pk - lo) as i128) as i64 } else { round_half_up((sc * (hi - c)) as i128, (hi - pk) as i128) as i64 };
                                        }
                                        None => {
                                            if c < pk.min(0) || c > pk.max(0) { active = false; break; }
                                            sc = round_half_up((sc * c.abs()) as i128, pk.abs() as i128) as i64;
                                        }
                                    }
                                }
                                if !active || sc == 0 { continue; }
                                if sc != 65536 { exact = false; }
                                let fmul = |x: i64| -> i64 { let ab = (x << 16) as i128 * sc as i128; (((ab + 0x8000 - if ab < 0 { 1 } else { 0 }) >> 16) as i64) as i32 as i64 };
                                if let Some(Some(x)) = t.xs.get(start) { p0 = (p0 + fmul(*x as i64)) as i32 as i64; }
                                if let Some(Some(x)) = t.xs.get(start + 1) { p1 = (p1 + fmul(*x as i64)) as i32 as i64; }
                            }
                            let to_i32 = |x: i64| ((x + 0x8000) as i32 as i64) >> 16;
                            (to_i32(p0), to_i32((p1 - p0) as i32 as i64), exact)
                        }
                        _ => (0, 0, true),
                    };
                    s.count(if !effective { "gvar:default-location" } else if exact { "gvar:integer-scalars" } else { "gvar:fractional-scalars" });
                    // the unscaled 16.16 result is only readable as an integer below 32768 (known finding)
                    derived_ok = (base_adv(&f, gid) + d_adv).abs() < 32768 && (base_lsb(&f, gid) + d_lsb).abs() < 32768;
                    scaled_oracle(s, "advance(gvar)", &adv, base_adv(&f, gid) + d_adv, ppem, upem, &input);
                    scaled_oracle(s, "lsb(gvar)", &lsb, base_lsb(&f, gid) + d_lsb, ppem, upem, &input);
                }
                // 3. the accumulation itself: tuples of the resolved glyph as the reader iterates them
                if let (Some((g, start)), Ok(Ok(Some(p)))) = (want, &ph) {
                    let vd = gvar.glyph_variation_data(GlyphId::new(g as u32));
                    if let Ok(Some(vd)) = vd {
                        let mut req = format!("gvar.px {start}");
                        let act: Vec<(Vec<(u16, i32)>, i32)> = vd.active_tuples_at(&coords).map(|(t, sc)| (t.deltas().map(|d| (d.position, d.x_delta)).collect(), sc.to_bits())).collect();
                        req.push_str(&format!(" {}", act.len()));
                        for (ds, sc) in &act {
                            req.push_str(&format!(" {sc} {}", ds.len()));
                            for (pos, x) in ds {
                                req.push_str(&format!(" {pos} {x}"));
                            }
                        }
                        // metric deltas as observed through unscaled metrics
                        let gm0 = fref.glyph_metrics(Size::unscaled(), LocationRef::new(&coords));
                        let da = catch(|| gm0.advance_width(GlyphId::new(gid))).ok().flatten().map(|v| v as i64 - base_adv(&f, gid));
                        let dl = catch(|| gm0.left_side_bearing(GlyphId::new(gid))).ok().flatten().map(|v| v as i64 - base_lsb(&f, gid));
                        if let (Some(da), Some(dl), true, true) = (da, dl, effective, derived_ok) {
                            s.case("phantom_point_deltas + metric_deltas_from_gvar", req, format!("{} {} {dl} {da}", p.0, p.1));
                        }
                    }
                }
            }
        }
    }
}

// ------------------------------------------------------------------------------------------
// C. HVAR / VVAR / MVAR delta lookup on compiled tables
// ------------------------------------------------------------------------------------------

fn dsim_view(m: Option<Result<RDsim, read_fonts::ReadError>>) -> Option<(u8, u32, Vec<u8>)> {
    match m {
        Some(Ok(RDsim::Format0(f))) => Some((f.entry_format().bits(), f.map_count() as u32, f.map_data().to_vec())),
        Some(Ok(RDsim::Format1(f))) => Some((f.entry_format().bits(), f.map_count(), f.map_data().to_vec())),
        _ => None,
    }
}

fn opt_dsim_req(v: &Option<(u8, u32, Vec<u8>)>) -> String {
    match v {
        None => "0".into(),
        Some((fmt, cnt, data)) => {
            let mut t = format!("1 {fmt} {cnt} {}", data.len());
            for b in data {
                t.push_str(&format!(" {b}"));
            }
            t
        }
    }
}

fn opt_store_req(v: &Option<RawStore>) -> String {
    match v { None => "0".into(), Some(st) => format!("1 {}", st.req_prefix()) }
}

fn fixed_res(r: Result<Result<Fixed, read_fonts::ReadError>, String>) -> String {
    match r { Ok(Ok(v)) => v.to_bits().to_string(), Ok(Err(_)) => "err".into(), Err(_) => "trap".into() }
}

/// header of HVAR / VVAR by hand: offsets (0 = NULL, 0xFFFFFF = beyond the table) to the given sub-tables
fn var_table_bytes(n_maps: usize, store: Option<&[u8]>, store_mode: u8, maps: &[Option<Vec<u8>>]) -> Vec<u8> {
    let header = 4 + 4 + 4 * n_maps;
    let mut out = vec![0, 1, 0, 0];
    let mut body: Vec<u8> = vec![];
    let off = |b: Option<&[u8]>, mode: u8, body: &mut Vec<u8>| -> u32 {
        match (mode, b) {
            (1, Some(b)) => { let o = header + body.len(); body.extend_from_slice(b); o as u32 }
            (2, _) => 0x00FF_FFFF,
            _ => 0,
        }
    };
    let so = off(store, store_mode, &mut body);
    out.extend_from_slice(&so.to_be_bytes());
    for m in maps.iter().take(n_maps) {
        let o = off(m.as_deref(), if m.is_some() { 1 } else { 0 }, &mut body);
        out.extend_from_slice(&o.to_be_bytes());
    }
    out.extend_from_slice(&body);
    out
}

pub fn run_var_tables(cfg: &Config, s: &mut Session, rng: &mut Rng) {
    use read_fonts::tables::{hvar::Hvar as RHvar, mvar::Mvar as RMvar, vvar::Vvar as RVvar};
    let n = if cfg.thorough() { 1500 } else { 200 };
    for t in 0..n {
        // a store with a handful of rows
        let n_regions = rng.range(1, 3) as usize;
        let regions: Vec<Region> = (0..n_regions).map(|_| vec![valid_axis(rng)]).collect();
        let items = rng.range(1, 6) as usize;
        let big = t % 5 == 0;
        let mut subs = vec![];
        for _ in 0..rng.range(1, 2) {
            let k = rng.range(1, n_regions as i64) as usize;
            let ris: Vec<u16> = (0..k as u16).collect();
            let long = big;
            let mut data = vec![];
            for _ in 0..items {
                for _ in 0..k {
                    if long { data.extend_from_slice(&(*rng.pick(&[32768i32, -32769, 40000, 65536, -100000, 5])).to_be_bytes()) } else { data.extend_from_slice(&(rng.range(-2000, 2000) as i16).to_be_bytes()) }
                }
            }
            subs.push(Some(RawSub { item_count: items as u16, wdc: if long { 0x8000 | k as u16 } else { k as u16 }, region_indexes: ris, data }));
        }
        let store = RawStore { axis_count: 1, regions, subs };
        let store_bytes = store.to_bytes();
        let n_glyphs = rng.range(1, 7) as u32;
        let mk_map = |rng: &mut Rng| -> Option<Vec<u8>> {
            if rng.chance(1, 3) { return None; }
            let len = rng.range(1, n_glyphs as i64 + 1) as usize;
            let w: WDsim = (0..len).map(|_| ((rng.below(store.subs.len() as u64 + 1) as u32) << 16) | rng.below(items as u64 + 1) as u32).collect();
            write_fonts::dump_table(&w).ok()
        };
        let maps: Vec<Option<Vec<u8>>> = (0..4).map(|_| mk_map(rng)).collect();
        let store_mode = match rng.below(10) { 0 => 0, 1 => 2, _ => 1 };
        let view_store = if store_mode == 1 { Some(store.clone()) } else { None };
        let coords_pool: Vec<Vec<i16>> = vec![vec![16384], vec![-16384], vec![8192], vec![], vec![0], vec![12000, 5], vec![-3000]];
        // HVAR: advance (advance_delta), lsb / rsb (item_delta)
        let hb = var_table_bytes(3, Some(&store_bytes), store_mode, &maps);
        if let Ok(hv) = RHvar::read(FontData::new(&hb)) {
            let views = [dsim_view(hv.advance_width_mapping()), dsim_view(hv.lsb_mapping()), dsim_view(hv.rsb_mapping())];
            for gid in (0..n_glyphs + 2).chain([65535, 65536, 70000]) {
                let coords = rng.pick(&coords_pool).clone();
                let cs = coords_f2(&coords);
                let g = GlyphId::new(gid);
                let r = [fixed_res(catch(|| hv.advance_width_delta(g, &cs))), fixed_res(catch(|| hv.lsb_delta(g, &cs))), fixed_res(catch(|| hv.rsb_delta(g, &cs)))];
                for (k, name) in ["Hvar::advance_width_delta", "Hvar::lsb_delta", "Hvar::rsb_delta"].into_iter().enumerate() {
                    let req = format!("var.delta {} {} {} {gid} {}", if k == 0 { 0 } else { 1 }, opt_dsim_req(&views[k]), opt_store_req(&view_store), lreq(&coords));
                    let grp: &'static str = match k { 0 => "Hvar::advance_width_delta", 1 => "Hvar::lsb_delta", _ => "Hvar::rsb_delta" };
                    s.case(grp, req, r[k].clone());
                    s.count(&format!("{name}:{}", if r[k] == "err" { "err" } else { "ok" }));
                    // independent: Fixed::from_i32 of the store's own compute_delta at the index the map gives
                    let want = catch(|| {
                        if cs.is_empty() { return "0".to_string(); }
                        let ix = match (&views[k], k) {
                            (Some(_), _) => match [hv.advance_width_mapping(), hv.lsb_mapping(), hv.rsb_mapping()][k].as_ref().unwrap().as_ref().unwrap().get(gid) { Ok(ix) => Some(ix), Err(_) => None },
                            (None, 0) => Some(DeltaSetIndex { outer: 0, inner: gid as u16 }),
                            (None, _) => None,
                        };
                        match (ix, hv.item_variation_store()) {
                            (Some(ix), Ok(ivs)) => match ivs.compute_delta(ix, &cs) { Ok(d) => ((d as i64) << 16) as i32 as i64, Err(_) => return "err".into() }.to_string(),
                            _ => "err".into(),
                        }
                    }).unwrap_or("trap".into());
                    s.oracle("hvar-delta=from_i32(compute_delta(index))", r[k] == want, || format!("HVAR {} gid={gid} coords={coords:?} which={name}", hex(&hb)), || format!("got {} want {want}", r[k]));
                }
            }
        }
        // VVAR: advance height (advance_delta), tsb / bsb / vorg (item_delta)
        let vb = var_table_bytes(4, Some(&store_bytes), store_mode, &maps);
        if let Ok(vv) = RVvar::read(FontData::new(&vb)) {
            let views = [dsim_view(vv.advance_height_mapping()), dsim_view(vv.tsb_mapping()), dsim_view(vv.bsb_mapping()), dsim_view(vv.v_org_mapping())];
            for gid in (0..n_glyphs + 2).chain([65536]) {
                let coords = rng.pick(&coords_pool).clone();
                let cs = coords_f2(&coords);
                let g = GlyphId::new(gid);
                let r = [fixed_res(catch(|| vv.advance_height_delta(g, &cs))), fixed_res(catch(|| vv.tsb_delta(g, &cs))), fixed_res(catch(|| vv.bsb_delta(g, &cs))), fixed_res(catch(|| vv.v_org_delta(g, &cs)))];
                for k in 0..4 {
                    let req = format!("var.delta {} {} {} {gid} {}", if k == 0 { 0 } else { 1 }, opt_dsim_req(&views[k]), opt_store_req(&view_store), lreq(&coords));
                    let grp: &'static str = match k { 0 => "Vvar::advance_height_delta", 1 => "Vvar::tsb_delta", 2 => "Vvar::bsb_delta", _ => "Vvar::v_org_delta" };
                    s.case(grp, req, r[k].clone());
                }
                // the vertical functions are the horizontal ones on the other table's maps
                if let Ok(hv) = RHvar::read(FontData::new(&hb)) {
                    let h = [fixed_res(catch(|| hv.advance_width_delta(g, &cs))), fixed_res(catch(|| hv.lsb_delta(g, &cs))), fixed_res(catch(|| hv.rsb_delta(g, &cs)))];
                    s.oracle("vvar-deltas=hvar-deltas(same store and maps)", r[0] == h[0] && r[1] == h[1] && r[2] == h[2], || format!("VVAR {} gid={gid} coords={coords:?}", hex(&vb)), || format!("{r:?} vs {h:?}"));
                }
            }
        }
        // MVAR
        let tag_pool: Vec<u32> = vec![0x68617363, 0x68647363, 0x686c6770, 0x78686774, 0x63706874, 0x756e646f, 0x756e6473, 0x7374726f, 0x73747273, 0x00000000, 0xFFFFFFFF, 0x68617364];
        let mut tags: Vec<u32> = (0..rng.range(0, 7)).map(|_| *rng.pick(&tag_pool)).collect();
        let sorted = !rng.chance(1, 5);
        if sorted { tags.sort(); tags.dedup(); }
        let recs: Vec<(u32, u16, u16)> = tags.iter().map(|t| (*t, rng.below(store.subs.len() as u64 + 1) as u16, rng.below(items as u64 + 1) as u16)).collect();
        let mut mb: Vec<u8> = vec![0, 1, 0, 0, 0, 0, 0, 8];
        mb.extend_from_slice(&(recs.len() as u16).to_be_bytes());
        let header = 12 + 8 * recs.len();
        let so: u16 = match store_mode { 0 => 0, 1 => header as u16, _ => 0xFFF0 };
        mb.extend_from_slice(&so.to_be_bytes());
        for (t, o, i) in &recs {
            mb.extend_from_slice(&t.to_be_bytes());
            mb.extend_from_slice(&o.to_be_bytes());
            mb.extend_from_slice(&i.to_be_bytes());
        }
        if store_mode == 1 { mb.extend_from_slice(&store_bytes); }
        if let Ok(mv) = RMvar::read(FontData::new(&mb)) {
            s.count(if sorted { "mvar:sorted-records" } else { "mvar:unsorted-records" });
            let mut rreq = format!("{}", recs.len());
            for (t, o, i) in &recs {
                rreq.push_str(&format!(" {t} {o} {i}"));
            }
            let mut queries: Vec<u32> = tag_pool.clone();
            queries.extend(tags.iter().flat_map(|t| [t.wrapping_sub(1), t.wrapping_add(1)]));
            for q in queries {
                let coords = rng.pick(&coords_pool).clone();
                let cs = coords_f2(&coords);
                let got = fixed_res(catch(|| mv.metric_delta(Tag::from_be_bytes(q.to_be_bytes()), &cs)));
                s.case("Mvar::metric_delta", format!("mvar.delta {rreq} {} {q} {}", opt_store_req(&view_store), lreq(&coords)), got.clone());
                if sorted {
                    let want = match recs.iter().find(|r| r.0 == q) {
                        None => "err".to_string(),
                        Some((_, o, i)) => catch(|| match mv.item_variation_store() { Some(Ok(ivs)) => match ivs.compute_delta(DeltaSetIndex { outer: *o, inner: *i }, &cs) { Ok(d) => (((d as i64) << 16) as i32).to_string(), Err(_) => "err".into() }, _ => "err".into() }).unwrap_or("trap".into()),
                    };
                    s.count(if want == "err" { "mvar:missing-or-error" } else { "mvar:found" });
                    s.oracle("mvar-metric_delta=delta-of-the-record-with-that-tag", got == want, || format!("MVAR {} tag={q:#x} coords={coords:?}", hex(&mb)), || format!("got {got} want {want}"));
                }
            }
        }
    }
}

// ------------------------------------------------------------------------------------------
// D. vertical metrics: vmtx (shares hmtx's lookup functions), VORG
// ------------------------------------------------------------------------------------------

pub fn run_vertical(cfg: &Config, s: &mut Session, rng: &mut Rng) {
    use read_fonts::tables::{hmtx::Hmtx as RHmtx, vmtx::Vmtx as RVmtx, vorg::Vorg as RVorg};
    use read_fonts::FontReadWithArgs;
    let n = if cfg.thorough() { 3000 } else { 400 };
    for _ in 0..n {
        let n_long = rng.range(0, 5) as u16;
        let n_glyphs = n_long + rng.range(0, 4) as u16;
        let ms: Vec<(u16, i16)> = (0..n_long).map(|_| (rng.next() as u16, rng.next() as i16)).collect();
        let bs: Vec<i16> = (0..n_glyphs - n_long).map(|_| rng.next() as i16).collect();
        let mut b = vec![];
        for (a, t) in &ms { b.extend_from_slice(&a.to_be_bytes()); b.extend_from_slice(&t.to_be_bytes()); }
        for t in &bs { b.extend_from_slice(&t.to_be_bytes()); }
        let mut req0 = format!("{}", ms.len());
        for (a, t) in &ms { req0.push_str(&format!(" {a} {t}")); }
        req0.push_str(&format!(" {}", bs.len()));
        for t in &bs { req0.push_str(&format!(" {t}")); }
        let (Ok(vm), Ok(hm)) = (RVmtx::read_with_args(FontData::new(&b), &(n_long, n_glyphs)), RHmtx::read_with_args(FontData::new(&b), &(n_long, n_glyphs))) else { s.count("vmtx:unreadable"); continue };
        for gid in (0..n_glyphs as u32 + 2).chain([65535, 70000]) {
            let g = GlyphId::new(gid);
            let sh = |a: Option<u16>, b: Option<i16>| format!("{} {}", a.map(|x| x.to_string()).unwrap_or("none".into()), b.map(|x| x.to_string()).unwrap_or("none".into()));
            let v = catch(|| sh(vm.advance(g), vm.side_bearing(g))).unwrap_or("trap".into());
            let h = catch(|| sh(hm.advance(g), hm.side_bearing(g))).unwrap_or("trap".into());
            s.case("Vmtx::advance/side_bearing", format!("vmtx.get {req0} {gid}"), v.clone());
            s.oracle("vmtx-lookup=hmtx-lookup", v == h, || format!("metrics={ms:?} bearings={bs:?} gid={gid}"), || format!("{v} vs {h}"));
            let want_adv = ms.get(gid as usize).or(ms.last()).map(|m| m.0);
            let want_sb = ms.get(gid as usize).map(|m| m.1).or_else(|| bs.get((gid as usize).saturating_sub(ms.len())).copied());
            s.oracle("vmtx: advance repeats the last long metric, bearing from the trailing array", v == sh(want_adv, want_sb), || format!("metrics={ms:?} bearings={bs:?} gid={gid}"), || format!("{v}"));
        }
        // VORG
        let k = rng.range(0, 7) as usize;
        let mut gids: Vec<u16> = (0..k).map(|_| rng.range(0, 12) as u16).collect();
        let sorted = !rng.chance(1, 4);
        if sorted { gids.sort(); gids.dedup(); }
        let recs: Vec<(u16, i16)> = gids.iter().map(|g| (*g, rng.next() as i16)).collect();
        let dflt = rng.next() as i16;
        let mut vb = vec![0, 1, 0, 0];
        vb.extend_from_slice(&dflt.to_be_bytes());
        vb.extend_from_slice(&(recs.len() as u16).to_be_bytes());
        for (g, y) in &recs { vb.extend_from_slice(&g.to_be_bytes()); vb.extend_from_slice(&y.to_be_bytes()); }
        let Ok(vo) = RVorg::read(FontData::new(&vb)) else { continue };
        let mut rreq = format!("{dflt} {}", recs.len());
        for (g, y) in &recs { rreq.push_str(&format!(" {g} {y}")); }
        s.count(if sorted { "vorg:sorted" } else { "vorg:unsorted" });
        for gid in 0..14u32 {
            let got = catch(|| vo.vertical_origin_y(GlyphId::new(gid)).to_string()).unwrap_or("trap".into());
            s.case("Vorg::vertical_origin_y", format!("vorg.y {rreq} {gid}"), got.clone());
            if sorted {
                let want = recs.iter().find(|r| r.0 as u32 == gid).map(|r| r.1).unwrap_or(dflt);
                s.oracle("vorg-y=record-or-default", got == want.to_string(), || format!("default={dflt} records={recs:?} gid={gid}"), || got.clone());
            }
        }
    }
}

// ------------------------------------------------------------------------------------------
// E. compiled store bytes
// ------------------------------------------------------------------------------------------

/// `bytes` = dump_table(ItemVariationStore), `store` = the reader's view of them
pub fn store_bytes_case(s: &mut Session, bytes: &[u8], store: &RawStore, desc: &str) {
    if bytes.len() > 40_000 {
        s.count("store-bytes:skipped(large)");
        return;
    }
    // placement order of the child tables as the packer chose it
    let rd32 = |o: usize| u32::from_be_bytes([bytes[o], bytes[o + 1], bytes[o + 2], bytes[o + 3]]) as usize;
    let mut placed: Vec<(usize, usize)> = vec![(rd32(2), 0)];
    for k in 0..store.subs.len() {
        let o = rd32(8 + 4 * k);
        if o != 0 { placed.push((o, k + 1)); }
    }
    placed.sort();
    let mut order: Vec<usize> = vec![];
    let mut last_off = usize::MAX;
    let mut shared = false;
    for (o, c) in &placed {
        if *o != last_off { order.push(*c); } else { shared = true; }
        last_off = *o;
    }
    s.count(if shared { "store-bytes:shared-subtables" } else if order.first() == Some(&0) { "store-bytes:region-list-first" } else { "store-bytes:region-list-later" });
    s.case("dump_table(ItemVariationStore) bytes", format!("ivs.bytes {} {} {}", store.axis_count, store.req_prefix(), lreq(&order)), hex(bytes));
    // reader side: the model parses the same bytes
    let regions_s: Vec<String> = store.regions.iter().map(|r| r.iter().map(|(a, b, c)| format!("{a},{b},{c}")).collect::<Vec<_>>().join(" ")).collect();
    let subs_s: Vec<String> = store.subs.iter().map(|x| match x { None => "null".to_string(), Some(x) => format!("{},{},{},{}", x.item_count, x.wdc, join(&x.region_indexes), hex(&x.data)) }).collect();
    s.case("ItemVariationStore::read (view of the bytes)", format!("ivs.parse {}", lreq(bytes)), format!("{}|{}|{}", store.axis_count, regions_s.join(";"), subs_s.join(";")));
    // model independent: nothing but header + children (no gaps, no trailing bytes)
    let header = 8 + 4 * store.subs.len();
    let mut total = header;
    let mut seen = std::collections::BTreeSet::new();
    for (o, c) in &placed {
        if seen.insert(*o) {
            total += if *c == 0 { 4 + 6 * store.axis_count as usize * store.regions.len() } else { let sb = store.subs[*c - 1].as_ref().unwrap(); 6 + 2 * sb.region_indexes.len() + sb.data.len() };
        }
    }
    s.oracle("store-bytes=header+region-list+subtables(no gaps)", total == bytes.len() && bytes[0..2] == [0, 1] && placed.first().map(|p| p.0) == Some(header), || desc.to_string(), || format!("{} vs {} bytes", total, bytes.len()));
}

/// the implicit-index builder at its documented item limit
pub fn run_direct_limit(_cfg: &Config, s: &mut Session, rng: &mut Rng) {
    for n_sets in [65_535usize, 65_536, 65_537] {
        let regions: Vec<Region> = vec![vec![(0, 16384, 16384)], vec![(-16384, -16384, 0)]];
        let sets: Vec<Vec<(usize, i32)>> = (0..n_sets).map(|i| if i % 7 == 0 { vec![] } else { vec![(i % 2, rng.range(-100, 100) as i32)] }).collect();
        let sc = Scenario { axis_count: 1, regions, sets, direct: true, label: "direct-limit" };
        let built = build_real(&sc);
        let (_, canon) = canonical_regions(&sc);
        let mut req = format!("ivs.directchk {} {}", canon.len(), sc.sets.len());
        for set in &sc.sets {
            req.push_str(&format!(" {}", set.len()));
            for (r, d) in set {
                req.push_str(&format!(" {} {}", canon[r], d));
            }
        }
        let resp = match &built {
            Err(_) => "trap".to_string(),
            Ok(b) => match parse_store(&b.bytes) {
                Ok(st) => {
                    let subs_s: Vec<String> = st.subs.iter().map(|x| match x { None => "null".to_string(), Some(x) => format!("{},{},{},{}", x.item_count, x.wdc, join(&x.region_indexes), hex(&x.data)) }).collect();
                    let mut remap_sorted: Vec<(u16, u16, u32)> = b.remap.iter().map(|(id, (o, i))| (*o, *i, *id)).collect();
                    remap_sorted.sort();
                    let used: Vec<String> = (0..st.regions.len()).map(|i| i.to_string()).collect();
                    format!("subs={}|remap={}|used={}", subs_s.join(";"), remap_sorted.iter().map(|(o, i, id)| format!("{id}:{o}:{i}")).collect::<Vec<_>>().join(" "), if used.is_empty() { "-".into() } else { used.join(" ") })
                }
                Err(e) => format!("unreadable {e}"),
            },
        };
        s.case("build(implicit indices, item limit)", req, resp);
        s.oracle("direct-builder: <= 0xFFFF items build, more are rejected", built.is_ok() == (n_sets <= 0xFFFF), || format!("{n_sets} delta sets"), || format!("{:?}", built.as_ref().map(|_| ()).map_err(|e| e.clone())));
    }
}

/// stores written from hand-made write-fonts values (not the builder): NULL subtables, identical
/// subtables (shared by the packer), empty region lists
pub fn run_store_bytes_handmade(cfg: &Config, s: &mut Session, rng: &mut Rng) {
    use write_fonts::tables::variations::{ItemVariationData as WIvd, ItemVariationStore as WIvs, VariationRegionList as WRl};
    let n = if cfg.thorough() { 1500 } else { 200 };
    for _ in 0..n {
        let axis_count = rng.range(1, 3) as u16;
        let n_regions = rng.range(0, 4) as usize;
        let regions: Vec<Region> = (0..n_regions).map(|_| (0..axis_count).map(|_| any_axis(rng)).collect()).collect();
        let mut pool: Vec<WIvd> = vec![];
        for _ in 0..rng.range(1, 3) {
            let rc = rng.range(0, n_regions as i64) as u16;
            let long = rng.chance(1, 3);
            let wl = rng.range(0, rc as i64) as u16;
            let wdc = wl | if long { 0x8000 } else { 0 };
            let item_count = rng.range(0, 3) as u16;
            let len = RIvd::delta_row_len(wdc, rc) * item_count as usize;
            pool.push(WIvd::new(item_count, wdc, (0..rc).map(|_| rng.below(n_regions.max(1) as u64) as u16).collect(), rng.bytes(len)));
        }
        let subs: Vec<Option<WIvd>> = (0..rng.range(0, 5)).map(|_| if rng.chance(1, 5) { None } else { Some(rng.pick(&pool).clone()) }).collect();
        let w = WIvs::new(WRl::new(axis_count, regions.iter().map(w_region).collect()), subs);
        let Ok(Ok(bytes)) = catch(|| write_fonts::dump_table(&w)) else { s.count("store-bytes:handmade-dump-failed"); continue };
        let Ok(store) = parse_store(&bytes) else { s.count("store-bytes:handmade-unreadable"); continue };
        store_bytes_case(s, &bytes, &store, &format!("handmade store {}", hex(&bytes)));
    }
}
