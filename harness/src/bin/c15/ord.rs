//! C15 — ordering, equality and hashing of the scalar types and of `BigEndian<T>`.
//! "ordering of values equals ordering of raw bits": the decoded integer, signed for the signed
//! and fixed-point types, unsigned for the others; byte-lexicographic for `Tag`; (major, minor)
//! for `MajorMinor`.
use fv_harness::common::*;
use font_types::*;
use std::cmp::Ordering;
use std::hash::{Hash, Hasher};

fn ord_str(o: Ordering) -> &'static str {
    match o {
        Ordering::Less => "lt",
        Ordering::Equal => "eq",
        Ordering::Greater => "gt",
    }
}

fn hash_of<T: Hash>(v: &T) -> u64 {
    let mut h = std::collections::hash_map::DefaultHasher::new();
    v.hash(&mut h);
    h.finish()
}

/// how the bytes of a kind are to be compared according to the property (model-independent)
#[derive(Clone, Copy, PartialEq)]
enum Kind {
    Unsigned,
    Signed,
}

fn value_of(kind: Kind, bytes: &[u8]) -> i128 {
    let mut u: i128 = 0;
    for b in bytes {
        u = (u << 8) | *b as i128;
    }
    if kind == Kind::Signed && bytes[0] >= 0x80 {
        u - (1i128 << (8 * bytes.len()))
    } else {
        u
    }
}

/// boundary byte patterns of `n` bytes: sign boundary, byte boundaries, ends
fn grid(n: usize, rng: &mut Rng, extra: usize) -> Vec<Vec<u8>> {
    let bits = 8 * n as u32;
    let mask: u128 = if bits == 128 { u128::MAX } else { (1u128 << bits) - 1 };
    let mut vals: Vec<u128> = vec![];
    let mut bases: Vec<u128> = vec![0, 1, 2, 0x20, 0x7E, 0x7F, 0x80, 0xFF, 0x100, 0x7FFF, 0x8000, 0xFFFF, 0x1_0000, 0x7F_FFFF, 0x80_0000, 0xFF_FFFF,
        0x100_0000, 0x7FFF_FFFF, 0x8000_0000, 0xFFFF_FFFF, 0x1_0000_0000, 0x0001_1000, 0x0000_5000, 0x0001_0000];
    bases.push(1u128 << (bits - 1)); // sign boundary of this width
    bases.push(mask);
    for b in bases {
        for d in [-1i128, 0, 1] {
            let v = (b as i128 + d) as u128 & mask;
            vals.push(v);
            vals.push((!v) & mask); // the complement: "-v - 1"
            vals.push(v.wrapping_neg() & mask);
        }
    }
    for _ in 0..extra {
        vals.push((rng.next() as u128 | ((rng.next() as u128) << 64)) & mask);
    }
    vals.sort();
    vals.dedup();
    vals.into_iter().map(|v| (0..n).map(|i| (v >> (8 * (n - 1 - i))) as u8).collect()).collect()
}

/// one pair for one type: correspondence with the model's `beCmp` plus the oracles
fn pair<T, const N: usize>(s: &mut Session, group: &'static str, kc: u8, kind: Kind, a: &[u8], b: &[u8], native: &dyn Fn(&T, &T) -> String)
where
    T: Scalar<Raw = [u8; N]> + Copy + Ord + Hash + std::fmt::Debug,
{
    let ra: [u8; N] = a.try_into().unwrap();
    let rb: [u8; N] = b.try_into().unwrap();
    let (ba, bb) = (BigEndian::<T>::new(ra), BigEndian::<T>::new(rb));
    let c = ba.cmp(&bb);
    let pc = ba.partial_cmp(&bb);
    let eq = ba == bb;
    let eqv = ba == bb.get();
    s.case(group, format!("ord.be {kc} {N} {} {}", join(a), join(b)),
        format!("{} {} {} {}", ord_str(c), pc.map(ord_str).unwrap_or("none"), eq as u8, eqv as u8));
    let want = value_of(kind, a).cmp(&value_of(kind, b));
    let input = || format!("{group}: {:02x?} vs {:02x?} (values {} vs {})", a, b, value_of(kind, a), value_of(kind, b));
    s.oracle("BigEndian-cmp=order-of-decoded-raw-bits", c == want, input, || format!("cmp = {c:?}, want {want:?}"));
    s.oracle("BigEndian-partial_cmp=Some(cmp)", pc == Some(c) && (ba < bb) == (c == Ordering::Less) && (ba >= bb) == (c != Ordering::Less), input, || format!("{pc:?} vs {c:?}"));
    s.oracle("BigEndian-cmp=T::cmp-of-get", c == ba.get().cmp(&bb.get()), input, || format!("{c:?}"));
    s.oracle("cmp-equal-iff-equal", (c == Ordering::Equal) == (a == b) && eq == (a == b) && eqv == (a == b) && (ba.get() == bb.get()) == (a == b), input, || format!("cmp {c:?} eq {eq} eqv {eqv}"));
    if a == b {
        s.oracle("equal-implies-equal-hash", hash_of(&ba) == hash_of(&bb) && hash_of(&ba.get()) == hash_of(&bb.get()), input, || String::new());
    }
    // the native type
    let (ta, tb) = (ba.get(), bb.get());
    let tc = ta.cmp(&tb);
    s.oracle("T::cmp=order-of-raw-bits", tc == want && ta.partial_cmp(&tb) == Some(tc), input, || format!("{tc:?} want {want:?}"));
    let req = native(&ta, &tb);
    if !req.is_empty() {
        s.case(group, req, ord_str(tc).to_string());
    }
    // decode / encode survive
    s.oracle("scalar-bytes-roundtrip", ta.to_raw() == ra && BigEndian::from(ta).be_bytes() == a, input, || format!("{:?}", ta.to_raw()));
    s.count(&format!("ord:{}:{}", group, match (value_of(Kind::Signed, a) < 0, value_of(Kind::Signed, b) < 0) { (true, true) => "top-bit both", (false, false) => "top-bit neither", _ => "top-bit differs" }));
}

fn sort_oracle<T, const N: usize>(s: &mut Session, group: &'static str, kind: Kind, g: &[Vec<u8>], rng: &mut Rng)
where
    T: Scalar<Raw = [u8; N]> + Copy + Ord + std::fmt::Debug,
{
    let mut raw: Vec<BigEndian<T>> = g.iter().map(|b| BigEndian::<T>::new(b.as_slice().try_into().unwrap())).collect();
    rng.shuffle(&mut raw);
    raw.sort();
    let got: Vec<i128> = raw.iter().map(|r| value_of(kind, r.be_bytes())).collect();
    let mut want = got.clone();
    want.sort();
    s.oracle("sort-of-BigEndian-slice=sort-of-values", got == want, || format!("{group}: {} boundary values", g.len()),
        || { let i = got.iter().zip(&want).position(|(a, b)| a != b).unwrap_or(0); format!("position {i}: got {} want {}", got[i], want[i]) });
    // binary search over the value-sorted raw array finds every key
    let mut by_value: Vec<&Vec<u8>> = g.iter().collect();
    by_value.sort_by_key(|b| value_of(kind, b));
    by_value.dedup();
    let sorted: Vec<BigEndian<T>> = by_value.iter().map(|b| BigEndian::<T>::new(b.as_slice().try_into().unwrap())).collect();
    for (i, b) in by_value.iter().enumerate() {
        let key = BigEndian::<T>::new(b.as_slice().try_into().unwrap());
        let r = sorted.binary_search(&key);
        s.oracle("binary_search-in-value-sorted-BigEndian-slice", r == Ok(i), || format!("{group}: key {:02x?} (value {})", b, value_of(kind, b)), || format!("got {r:?} want Ok({i})"));
    }
}

macro_rules! ord_type {
    ($s:expr, $rng:expr, $T:ty, $n:expr, $kc:expr, $kind:expr, $group:expr, $extra:expr, $native:expr) => {{
        let g = grid($n, $rng, $extra);
        for a in &g {
            for b in &g {
                pair::<$T, $n>($s, $group, $kc, $kind, a, b, &$native);
            }
        }
        sort_oracle::<$T, $n>($s, $group, $kind, &g, $rng);
    }};
}

pub fn run(cfg: &Config, s: &mut Session, rng: &mut Rng) {
    let x = if cfg.thorough() { 40 } else { 6 };
    // 8-bit: exhaustive pairs
    for a in 0..=255u8 {
        for b in 0..=255u8 {
            pair::<u8, 1>(s, "BigEndian<u8>", 0, Kind::Unsigned, &[a], &[b], &|p: &u8, q: &u8| format!("ord.nat {p} {q}"));
            pair::<i8, 1>(s, "BigEndian<i8>", 1, Kind::Signed, &[a], &[b], &|p: &i8, q: &i8| format!("ord.nat {p} {q}"));
        }
    }
    sort_oracle::<i8, 1>(s, "BigEndian<i8>", Kind::Signed, &(0..=255u8).map(|b| vec![b]).collect::<Vec<_>>(), rng);
    sort_oracle::<u8, 1>(s, "BigEndian<u8>", Kind::Unsigned, &(0..=255u8).map(|b| vec![b]).collect::<Vec<_>>(), rng);
    ord_type!(s, rng, u16, 2, 0, Kind::Unsigned, "BigEndian<u16>", x, |p: &u16, q: &u16| format!("ord.nat {p} {q}"));
    ord_type!(s, rng, i16, 2, 1, Kind::Signed, "BigEndian<i16>", x, |p: &i16, q: &i16| format!("ord.nat {p} {q}"));
    ord_type!(s, rng, u32, 4, 0, Kind::Unsigned, "BigEndian<u32>", x, |p: &u32, q: &u32| format!("ord.nat {p} {q}"));
    ord_type!(s, rng, i32, 4, 1, Kind::Signed, "BigEndian<i32>", x, |p: &i32, q: &i32| format!("ord.nat {p} {q}"));
    ord_type!(s, rng, i64, 8, 1, Kind::Signed, "BigEndian<i64>", x, |p: &i64, q: &i64| format!("ord.nat {p} {q}"));
    ord_type!(s, rng, Uint24, 3, 3, Kind::Unsigned, "BigEndian<Uint24>", x, |p: &Uint24, q: &Uint24| format!("ord.nat {} {}", p.to_u32(), q.to_u32()));
    ord_type!(s, rng, Int24, 3, 2, Kind::Signed, "BigEndian<Int24>", x, |p: &Int24, q: &Int24| format!("ord.nat {} {}", p.to_i32(), q.to_i32()));
    ord_type!(s, rng, FWord, 2, 1, Kind::Signed, "BigEndian<FWord>", x, |p: &FWord, q: &FWord| format!("ord.nat {} {}", p.to_i16(), q.to_i16()));
    ord_type!(s, rng, UfWord, 2, 0, Kind::Unsigned, "BigEndian<UfWord>", x, |p: &UfWord, q: &UfWord| format!("ord.nat {} {}", p.to_u16(), q.to_u16()));
    ord_type!(s, rng, F2Dot14, 2, 1, Kind::Signed, "BigEndian<F2Dot14>", x, |p: &F2Dot14, q: &F2Dot14| format!("ord.nat {} {}", p.to_bits(), q.to_bits()));
    ord_type!(s, rng, F4Dot12, 2, 1, Kind::Signed, "BigEndian<F4Dot12>", x, |p: &F4Dot12, q: &F4Dot12| format!("ord.nat {} {}", p.to_bits(), q.to_bits()));
    ord_type!(s, rng, F6Dot10, 2, 1, Kind::Signed, "BigEndian<F6Dot10>", x, |p: &F6Dot10, q: &F6Dot10| format!("ord.nat {} {}", p.to_bits(), q.to_bits()));
    ord_type!(s, rng, Fixed, 4, 1, Kind::Signed, "BigEndian<Fixed>", x, |p: &Fixed, q: &Fixed| format!("ord.nat {} {}", p.to_bits(), q.to_bits()));
    ord_type!(s, rng, LongDateTime, 8, 1, Kind::Signed, "BigEndian<LongDateTime>", x, |p: &LongDateTime, q: &LongDateTime| format!("ord.nat {} {}", p.as_secs(), q.as_secs()));
    ord_type!(s, rng, Version16Dot16, 4, 0, Kind::Unsigned, "BigEndian<Version16Dot16>", x, |p: &Version16Dot16, q: &Version16Dot16| format!("ord.nat {} {}", u32::from_be_bytes(p.to_be_bytes()), u32::from_be_bytes(q.to_be_bytes())));
    ord_type!(s, rng, MajorMinor, 4, 5, Kind::Unsigned, "BigEndian<MajorMinor>", x, |p: &MajorMinor, q: &MajorMinor| format!("ord.lex 2 {} {} {} {}", p.major, p.minor, q.major, q.minor));
    ord_type!(s, rng, GlyphId16, 2, 0, Kind::Unsigned, "BigEndian<GlyphId16>", x, |p: &GlyphId16, q: &GlyphId16| format!("ord.nat {} {}", p.to_u16(), q.to_u16()));
    ord_type!(s, rng, NameId, 2, 0, Kind::Unsigned, "BigEndian<NameId>", x, |p: &NameId, q: &NameId| format!("ord.nat {} {}", p.to_u16(), q.to_u16()));
    ord_type!(s, rng, Tag, 4, 4, Kind::Unsigned, "BigEndian<Tag>", x, |p: &Tag, q: &Tag| format!("ord.lex 4 {} {}", join(&p.to_be_bytes()), join(&q.to_be_bytes())));

    // offsets: `Ord` but no `Hash`; GlyphId (u32, not a Scalar): native only
    let g2 = grid(2, rng, x);
    let g3 = grid(3, rng, x);
    let g4 = grid(4, rng, x);
    macro_rules! native_only {
        ($g:expr, $n:expr, $mk:expr, $group:expr) => {
            for a in $g.iter() {
                for b in $g.iter() {
                    let (va, vb) = (value_of(Kind::Unsigned, a), value_of(Kind::Unsigned, b));
                    let (ta, tb) = ($mk(a.as_slice()), $mk(b.as_slice()));
                    let c = ta.cmp(&tb);
                    s.case($group, format!("ord.nat {va} {vb}"), ord_str(c).to_string());
                    s.oracle("T::cmp=order-of-raw-bits", c == va.cmp(&vb) && ta.partial_cmp(&tb) == Some(c) && (ta == tb) == (va == vb),
                        || format!("{}: {va} vs {vb}", $group), || format!("{c:?}"));
                }
            }
        };
    }
    native_only!(g2, 2, |b: &[u8]| Offset16::from_raw(b.try_into().unwrap()), "Offset16");
    native_only!(g3, 3, |b: &[u8]| Offset24::from_raw(b.try_into().unwrap()), "Offset24");
    native_only!(g4, 4, |b: &[u8]| Offset32::from_raw(b.try_into().unwrap()), "Offset32");
    native_only!(g4, 4, |b: &[u8]| GlyphId::new(u32::from_be_bytes(b.try_into().unwrap())), "GlyphId");
    // BigEndian<Offset*>: Ord through get()
    for a in g3.iter() {
        for b in g3.iter() {
            let (ba, bb) = (BigEndian::<Offset24>::new(a.as_slice().try_into().unwrap()), BigEndian::<Offset24>::new(b.as_slice().try_into().unwrap()));
            let c = ba.cmp(&bb);
            s.case("BigEndian<Offset24>", format!("ord.be 3 3 {} {}", join(a), join(b)), format!("{} {} {} {}", ord_str(c), ba.partial_cmp(&bb).map(ord_str).unwrap_or("none"), (ba == bb) as u8, (ba == bb.get()) as u8));
            s.oracle("BigEndian-cmp=order-of-decoded-raw-bits", c == value_of(Kind::Unsigned, a).cmp(&value_of(Kind::Unsigned, b)), || format!("BigEndian<Offset24> {a:?} {b:?}"), || format!("{c:?}"));
        }
    }
    // GlyphId vs GlyphId16 cross comparisons
    for a in g4.iter() {
        for b in g2.iter() {
            let (va, vb) = (value_of(Kind::Unsigned, a), value_of(Kind::Unsigned, b));
            let (ga, gb) = (GlyphId::new(va as u32), GlyphId16::new(vb as u16));
            let c = ga.partial_cmp(&gb);
            s.case("GlyphId~GlyphId16", format!("ord.gidx {va} {vb}"), c.map(ord_str).unwrap_or("none").to_string());
            let c2 = gb.partial_cmp(&ga);
            s.case("GlyphId16~GlyphId", format!("ord.gidx {vb} {va}"), c2.map(ord_str).unwrap_or("none").to_string());
            s.oracle("glyph-id-cross-cmp=order-of-values", c == Some(va.cmp(&vb)) && c2 == Some(vb.cmp(&va)) && (ga == gb) == (va == vb) && (gb == ga) == (va == vb),
                || format!("GlyphId({va}) vs GlyphId16({vb})"), || format!("{c:?} {c2:?}"));
        }
    }
}
