//! C15 — the remaining scalar types: Int24 / Uint24 checked constructors, Version16Dot16,
//! MajorMinor, LongDateTime, FWord / UfWord, offsets, GlyphId16 <-> GlyphId, Tag, NameId.
use fv_harness::common::*;
use font_types::*;

fn b01(b: bool) -> String {
    (b as u8).to_string()
}

fn opt<T: std::fmt::Display>(o: Option<T>) -> String {
    o.map(|v| v.to_string()).unwrap_or("none".into())
}

fn tag_err(e: &InvalidTag) -> String {
    match e {
        InvalidTag::InvalidLength(n) => format!("err:len {n}"),
        InvalidTag::InvalidByte { pos, byte } => format!("err:byte {pos} {byte}"),
        InvalidTag::ByteAfterSpace { pos } => format!("err:after {pos}"),
        _ => "err:?".into(),
    }
}

fn u16_grid() -> Vec<u16> {
    let mut v = vec![];
    for b in [0u16, 1, 2, 4, 5, 9, 10, 11, 15, 16, 25, 26, 0x7F, 0x80, 0xFF, 0x100, 0x101, 0xFFF, 0x1000, 0x4FFF, 0x5000, 0x7FFE, 0x7FFF, 0x8000, 0x8001, 0x9000, 0xA000, 0xFFFE, 0xFFFF] {
        v.push(b);
    }
    v
}

pub fn run(cfg: &Config, s: &mut Session, rng: &mut Rng) {
    let thorough = cfg.thorough();
    // ---- Int24 / Uint24 checked constructors
    let mut vals: Vec<i64> = vec![];
    for b in [0i64, 1, 0x7F_FFFE, 0x7F_FFFF, 0x80_0000, 0x80_0001, 0xFF_FFFE, 0xFF_FFFF, 0x100_0000, 0x100_0001, 0x7FFF_FFFF, 0x8000_0000, 0xFFFF_FFFF, 0x1_0000_0000, 0x1_0000_0001, 0x1_00FF_FFFF] {
        vals.push(b);
        vals.push(-b);
    }
    for _ in 0..if thorough { 20000 } else { 2000 } {
        vals.push((rng.next() as i64) >> rng.below(40).max(24));
    }
    for &v in &vals {
        if let Ok(i) = i32::try_from(v) {
            let c = Int24::checked_new(i);
            s.case("Int24::checked_new", format!("i24.checked {i}"), opt(c.map(|x| x.to_i32())));
            let in_range = (-0x80_0000..=0x7F_FFFF).contains(&i);
            s.oracle("int24-checked_new", c.map(|x| x.to_i32()) == if in_range { Some(i) } else { None } && (!in_range || Int24::new(i).to_i32() == i) && i32::from(Int24::new(i)) == i.clamp(-0x80_0000, 0x7F_FFFF),
                || format!("Int24::checked_new({i})"), || format!("{c:?}"));
        }
        if let Ok(u) = u32::try_from(v) {
            let c = Uint24::checked_new(u);
            s.case("Uint24::checked_new", format!("u24.checked {u}"), opt(c.map(|x| x.to_u32())));
            s.oracle("uint24-checked_new", c.map(|x| x.to_u32()) == if u <= 0xFF_FFFF { Some(u) } else { None } && u32::from(Uint24::new(u)) == u.min(0xFF_FFFF) && usize::from(Uint24::new(u)) == u.min(0xFF_FFFF) as usize,
                || format!("Uint24::checked_new({u})"), || format!("{c:?}"));
        }
        if v >= 0 {
            let t = Uint24::try_from(v as usize).ok();
            s.case("Uint24::try_from(usize)", format!("u24.tryfrom {v}"), opt(t.map(|x| x.to_u32())));
            s.oracle("uint24-try_from-usize", t.map(|x| x.to_u32() as i64) == if v <= 0xFF_FFFF { Some(v) } else { None }, || format!("Uint24::try_from({v}usize)"), || format!("{t:?}"));
        }
    }

    // ---- Version16Dot16 / MajorMinor
    let g = u16_grid();
    for &ma in &g {
        for &mi in &g {
            let v = catch(|| Version16Dot16::new(ma, mi));
            let raw = v.as_ref().map(|v| u32::from_be_bytes(v.to_be_bytes())).map_err(|e| e.clone());
            s.case("Version16Dot16::new", format!("ver.new {ma} {mi}"), trap_or(raw.clone()));
            s.oracle("version-new-panics-iff-minor>=10", raw.is_ok() == (mi < 10), || format!("Version16Dot16::new({ma}, {mi})"), || format!("{raw:?}"));
            if let Ok(v) = v {
                s.oracle("version-major-minor-roundtrip", v.to_major_minor() == (ma, mi), || format!("Version16Dot16::new({ma}, {mi})"), || format!("{:?}", v.to_major_minor()));
            }
            let m = MajorMinor::new(ma, mi);
            s.case("MajorMinor::to_be_bytes", format!("mm.tobe {ma} {mi}"), join(&m.to_be_bytes()));
            let back = MajorMinor::from_raw(m.to_raw());
            s.oracle("majorminor-be-roundtrip", back == m && m.to_raw() == m.to_be_bytes() && u32::from_be_bytes(m.to_raw()) == ((ma as u32) << 16 | mi as u32), || format!("MajorMinor({ma}, {mi})"), || format!("{back:?}"));
        }
    }
    let mut raws: Vec<u32> = vec![0, 0x5000, 0x10000, 0x11000, 0x20000, 0x25000, 0x30000, 0xFFFF_FFFF, 0xFFFF_F000, 0x0001_0FFF, 0x0001_1FFF, 0x0001_9000, 0x0001_A000, 0x0001_F000, 0x8000_0000, 0x7FFF_9000];
    for _ in 0..if thorough { 3000 } else { 200 } {
        raws.push(rng.next() as u32);
        // constructed versions and near misses
        raws.push(((rng.below(4) as u32) << 16) | ((rng.below(16) as u32) << 12) | if rng.chance(1, 4) { rng.below(0x1000) as u32 } else { 0 });
    }
    for &a in &raws {
        let va = Version16Dot16::from_raw(a.to_be_bytes());
        let (ma, mi) = va.to_major_minor();
        s.case("Version16Dot16::to_major_minor", format!("ver.mm {a}"), format!("{ma} {mi}"));
        s.oracle("version-to_major_minor", ma == (a >> 16) as u16 && mi == ((a >> 12) & 0xF) as u16, || format!("Version16Dot16({a:#x})"), || format!("{ma} {mi}"));
        s.oracle("version-be-roundtrip", va.to_be_bytes() == a.to_be_bytes() && va.to_raw() == a.to_be_bytes(), || format!("Version16Dot16({a:#x})"), || String::new());
        let b4 = a.to_be_bytes();
        let m = MajorMinor::from_raw(b4);
        s.case("MajorMinor::from_raw", format!("mm.fromraw {}", join(&b4)), format!("{} {}", m.major, m.minor));
        s.oracle("majorminor-bytes-roundtrip", m.to_raw() == b4, || format!("MajorMinor {b4:?}"), || String::new());
        for &b in raws.iter().take(48) {
            let vb = Version16Dot16::from_raw(b.to_be_bytes());
            let c = va.compatible(vb);
            s.case("Version16Dot16::compatible", format!("ver.compat {a} {b}"), b01(c));
            let (mb, nb) = vb.to_major_minor();
            s.oracle("version-compatible=same-major-and-minor>=", c == (ma == mb && mi >= nb), || format!("Version16Dot16({a:#x}).compatible({b:#x})"), || format!("{c}"));
            let mm = MajorMinor::from_raw(b.to_be_bytes());
            let c2 = m.compatible(mm);
            s.case("MajorMinor::compatible", format!("mm.compat {} {} {} {}", m.major, m.minor, mm.major, mm.minor), b01(c2));
            let c3 = m.compatible((mm.major, mm.minor));
            s.oracle("majorminor-compatible=same-major-and-minor>=", c2 == (m.major == mm.major && m.minor >= mm.minor) && c3 == c2, || format!("{m:?}.compatible({mm:?})"), || format!("{c2} {c3}"));
            let c4 = m.major.compatible(mm.major);
            s.case("u16::compatible", format!("u16.compat {} {}", m.major, mm.major), b01(c4));
        }
        for &(pm, pn) in &[(0u16, 5u16), (1, 0), (1, 1), (1, 9), (1, 10), (2, 0), (3, 0), (0xFFFF, 9), (1, 0xFFFF)] {
            let c = catch(|| va.compatible((pm, pn)));
            s.case("Version16Dot16::compatible((u16,u16))", format!("ver.compat2 {a} {pm} {pn}"), match &c { Ok(b) => b01(*b), Err(_) => "trap".into() });
        }
    }

    // ---- LongDateTime: 8-byte signed big endian
    let mut secs: Vec<i64> = vec![0, 1, -1, 0x7F, 0x80, 0xFF, 0x100, i64::MAX, i64::MIN, i64::MAX - 1, i64::MIN + 1, 0x7FFF_FFFF, 0x8000_0000, -0x8000_0000, -0x8000_0001, 3_800_000_000];
    for _ in 0..if thorough { 20000 } else { 2000 } {
        secs.push((rng.next() as i64) >> rng.below(64));
    }
    for &v in &secs {
        let d = LongDateTime::new(v);
        s.case("LongDateTime::to_be_bytes", format!("be.s 8 {v}"), join(&d.to_be_bytes()));
        let mut req = String::from("be.froms 8");
        for b in d.to_be_bytes() {
            req.push_str(&format!(" {b}"));
        }
        s.case("LongDateTime::from_raw", req, LongDateTime::from_raw(d.to_be_bytes()).as_secs().to_string());
        s.oracle("longdatetime-be-roundtrip", LongDateTime::from_raw(d.to_raw()) == d && d.as_secs() == v && d.to_raw() == v.to_be_bytes() && i64::from_raw(v.to_raw()) == v, || format!("LongDateTime({v})"), || String::new());
    }

    // ---- FWord / UfWord, offsets, glyph ids, NameId: exhaustive over 16 bits
    for v in 0..=u16::MAX {
        let i = v as i16;
        let sample = thorough || v % 9 == 0 || v < 300 || v > 0xFFFF - 300 || (v > 0x7F00 && v < 0x8100);
        let f = FWord::new(i);
        let u = UfWord::new(v);
        if sample {
            s.case("FWord::to_fixed", format!("fw.tofixed {i}"), f.to_fixed().to_bits().to_string());
            s.case("UfWord::to_fixed", format!("fw.tofixed {v}"), trap_or(catch(|| u.to_fixed().to_bits())));
            s.case("Offset16::is_null", format!("off.null {v}"), b01(Offset16::new(v).is_null()));
            s.case("NameId::is_reserved", format!("nid.reserved {v}"), b01(NameId::new(v).is_reserved()));
        }
        s.oracle("fword-to_fixed-exact", f.to_fixed().to_bits() as i64 == (i as i64) << 16 && f.to_fixed().to_i32() == i as i32 && f.to_i16() == i && i16::from(f) == i && FWord::from(i) == f && FWord::from_raw(f.to_raw()) == f && f.to_be_bytes() == i.to_be_bytes(),
            || format!("FWord({i})"), || format!("{}", f.to_fixed().to_bits()));
        // UfWord::to_fixed: `Fixed::from_i32(self.0 as i32)` = v << 16 in i32: the high bit of v >= 0x8000 is shifted out (no trap: `<<` only checks the shift amount)
        s.oracle("ufword-to_fixed", u.to_fixed().to_bits() == ((v as u32) << 16) as i32 && u.to_u16() == v && u16::from(u) == v && UfWord::from(v) == u && UfWord::from_raw(u.to_raw()) == u,
            || format!("UfWord({v})"), || format!("{}", u.to_fixed().to_bits()));
        if v < 0x8000 {
            s.oracle("ufword-to_fixed-exact-below-0x8000", u.to_fixed().to_bits() as i64 == (v as i64) << 16, || format!("UfWord({v})"), || format!("{}", u.to_fixed().to_bits()));
        }
        let o = Offset16::new(v);
        s.oracle("offset16", o.is_null() == (v == 0) && o.to_u32() == v as u32 && (o == v as u32) && Offset16::from_raw(o.to_raw()) == o && o.to_raw() == v.to_be_bytes()
            && Nullable::<Offset16>::from_raw(v.to_be_bytes()).is_null() == (v == 0) && *Nullable::<Offset16>::from_raw(v.to_be_bytes()).offset() == o && Nullable::<Offset16>::from_raw(v.to_be_bytes()).to_raw() == v.to_be_bytes(),
            || format!("Offset16({v})"), || String::new());
        let g = GlyphId16::new(v);
        let g32 = GlyphId::from(g);
        s.oracle("glyphid16->glyphid->glyphid16", g32.to_u32() == v as u32 && GlyphId16::try_from(g32).ok() == Some(g) && g.to_u16() == v && g.to_u32() == v as u32 && usize::from(g) == v as usize && u32::from(g) == v as u32
            && GlyphId::from(v) == g32 && GlyphId16::from(v) == g && GlyphId16::from_raw(g.to_raw()) == g && g.to_be_bytes() == v.to_be_bytes() && g32 == g && g == g32,
            || format!("GlyphId16({v})"), || String::new());
        let n = NameId::new(v);
        s.oracle("nameid", n.is_reserved() == (v <= 255) && n.to_u16() == v && NameId::from(v) == n && NameId::from_raw(n.to_raw()) == n && n.to_be_bytes() == v.to_be_bytes(), || format!("NameId({v})"), || String::new());
    }
    for &a in &u16_grid() {
        for &b in &u16_grid() {
            let r = NameId::new(a).checked_add(b);
            s.case("NameId::checked_add", format!("nid.add {a} {b}"), opt(r.map(|x| x.to_u16())));
            let sum = a as u32 + b as u32;
            s.oracle("nameid-checked_add", r.map(|x| x.to_u16() as u32) == if sum <= 32767 { Some(sum) } else { None }, || format!("NameId({a}).checked_add({b})"), || format!("{r:?}"));
        }
    }
    let mut g32: Vec<u32> = vec![0, 1, 0xFFFE, 0xFFFF, 0x1_0000, 0x1_0001, 0xFF_FFFF, 0x100_0000, 0x7FFF_FFFF, 0x8000_0000, 0xFFFF_FFFE, 0xFFFF_FFFF];
    for _ in 0..if thorough { 5000 } else { 500 } {
        g32.push((rng.next() as u32) >> rng.below(32));
    }
    for &v in &g32 {
        let r = GlyphId16::try_from(GlyphId::new(v));
        s.case("GlyphId16::try_from(GlyphId)", format!("gid.try {v}"), match &r {
            Ok(g) => format!("ok {}", g.to_u16()),
            Err(e) => format!("err {}", e.to_string().split_whitespace().nth(2).unwrap_or("?")),
        });
        s.oracle("glyphid16-try_from", r.as_ref().ok().map(|g| g.to_u32()) == if v <= 0xFFFF { Some(v) } else { None } && GlyphId::from(v).to_u32() == v && u32::from(GlyphId::new(v)) == v, || format!("GlyphId16::try_from(GlyphId({v}))"), || format!("{r:?}"));
        let o = Offset32::new(v);
        s.case("Offset32::is_null", format!("off.null {v}"), b01(o.is_null()));
        s.oracle("offset32", o.is_null() == (v == 0) && o.to_u32() == v && Offset32::from_raw(o.to_raw()) == o && o.to_raw() == v.to_be_bytes() && Nullable::<Offset32>::from_raw(v.to_be_bytes()).is_null() == (v == 0), || format!("Offset32({v})"), || String::new());
        let b3 = [(v >> 16) as u8, (v >> 8) as u8, v as u8];
        let o = Offset24::from_raw(b3);
        s.case("Offset24::is_null", format!("off.null {}", v & 0xFF_FFFF), b01(o.is_null()));
        s.oracle("offset24", o.is_null() == (v & 0xFF_FFFF == 0) && o.to_u32() == v & 0xFF_FFFF && o.to_raw() == b3 && Offset24::new(Uint24::new(v)).to_u32() == v.min(0xFF_FFFF) && Nullable::<Offset24>::from_raw(b3).is_null() == (v & 0xFF_FFFF == 0), || format!("Offset24({b3:?})"), || String::new());
        // Tag <-> u32
        let t = Tag::from_u32(v);
        s.case("Tag::from_u32", format!("tag.fromu32 {v}"), join(&t.to_be_bytes()));
        s.oracle("tag-u32-roundtrip", u32::from_be_bytes(t.to_be_bytes()) == v && Tag::from_be_bytes(v.to_be_bytes()) == t && Tag::new(&v.to_be_bytes()) == t && t.into_bytes() == v.to_be_bytes() && Tag::from_raw(t.to_raw()) == t && t == v.to_be_bytes(),
            || format!("Tag::from_u32({v:#x})"), || String::new());
    }

    // ---- Tag::new_checked / validate: every byte class in every position
    let classes: [u8; 12] = [0x00, 0x1F, 0x20, 0x21, 0x41, 0x7A, 0x7E, 0x7F, 0x80, 0xFF, 0x61, 0x30];
    let mut srcs: Vec<Vec<u8>> = vec![vec![], vec![0x41; 5], vec![0x20; 5], vec![0x41; 6]];
    for len in 1..=4usize {
        let total = classes.len().pow(len as u32);
        for i in 0..total {
            let mut x = i;
            let mut v = vec![];
            for _ in 0..len {
                v.push(classes[x % classes.len()]);
                x /= classes.len();
            }
            srcs.push(v);
        }
    }
    for _ in 0..if thorough { 20000 } else { 1000 } {
        let len = rng.below(6) as usize;
        srcs.push((0..len).map(|_| if rng.chance(3, 4) { rng.range(0x1E, 0x80) as u8 } else { rng.next() as u8 }).collect());
    }
    for src in &srcs {
        let r = Tag::new_checked(src);
        let mut req = String::from("tag.checked");
        for b in src {
            req.push_str(&format!(" {b}"));
        }
        s.case("Tag::new_checked", req, match &r { Ok(t) => format!("ok {}", join(&t.to_be_bytes())), Err(e) => tag_err(e) });
        // specification: 1..=4 bytes, printable ASCII, no leading space, only spaces after a space
        let valid = !src.is_empty() && src.len() <= 4 && src.iter().all(|b| (0x20..=0x7E).contains(b)) && src[0] != 0x20
            && src.windows(2).all(|w| !(w[0] == 0x20 && w[1] != 0x20));
        s.oracle("tag-new_checked-accepts-iff-valid", r.is_ok() == valid, || format!("Tag::new_checked({src:02x?})"), || format!("{r:?}"));
        s.count(&format!("tag.new_checked:{}", match &r { Ok(_) => "ok".to_string(), Err(e) => tag_err(e).split(' ').next().unwrap().to_string() }));
        if let Ok(t) = &r {
            let mut padded = src.clone();
            padded.resize(4, 0x20);
            s.oracle("tag-new_checked-pads-with-spaces", t.to_be_bytes()[..] == padded[..] && t.validate().is_ok() && std::str::from_utf8(src).ok().and_then(|x| x.parse::<Tag>().ok()) == Some(*t),
                || format!("Tag::new_checked({src:02x?})"), || format!("{t:?}"));
        }
        if src.len() == 4 {
            let t = Tag::new(&[src[0], src[1], src[2], src[3]]);
            let v = t.validate();
            s.case("Tag::validate", format!("tag.validate {}", join(src)), match &v { Ok(()) => "ok".into(), Err(e) => tag_err(e) });
            s.oracle("tag-validate-accepts-iff-valid", v.is_ok() == valid && v.is_ok() == r.is_ok(), || format!("Tag({src:02x?}).validate()"), || format!("{v:?}"));
            s.count(&format!("tag.validate:{}", match &v { Ok(_) => "ok".to_string(), Err(e) => tag_err(e).split(' ').next().unwrap().to_string() }));
        }
    }
}
