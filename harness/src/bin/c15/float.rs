//! C15 — float conversions of the fixed-point types (`float_conv!`, `Fixed::to_f32`,
//! `F26Dot6::to_f32`) and `OtRound` (write-fonts/src/round.rs).
//!
//! Floats never enter the line protocol as text: an argument is its bit pattern, a result is the
//! exact `m·2^e`.  The oracles do their own exact arithmetic on the decomposed float
//! (u128 integers), independent of the Lean model.
use fv_harness::common::*;
use font_types::{F26Dot6, F2Dot14, F4Dot12, F6Dot10, Fixed};
use write_fonts::OtRound;

/// exact value of a float: `±m·2^e`
#[derive(Clone, Copy, Debug, PartialEq)]
pub enum Fx {
    Nan,
    Inf(bool),
    Fin(bool, u64, i32),
}

pub fn dec32(x: f32) -> Fx {
    let b = x.to_bits();
    let neg = b >> 31 == 1;
    let ex = (b >> 23) & 0xFF;
    let fr = (b & 0x7F_FFFF) as u64;
    match ex {
        0xFF => if fr == 0 { Fx::Inf(neg) } else { Fx::Nan },
        0 => Fx::Fin(neg, fr, -149),
        _ => Fx::Fin(neg, fr | 0x80_0000, ex as i32 - 150),
    }
}

pub fn dec64(x: f64) -> Fx {
    let b = x.to_bits();
    let neg = b >> 63 == 1;
    let ex = (b >> 52) & 0x7FF;
    let fr = b & 0xF_FFFF_FFFF_FFFF;
    match ex {
        0x7FF => if fr == 0 { Fx::Inf(neg) } else { Fx::Nan },
        0 => Fx::Fin(neg, fr, -1074),
        _ => Fx::Fin(neg, fr | (1 << 52), ex as i32 - 1075),
    }
}

/// canonical exact rendering, the same as `FVal.show` of Model/Ieee.lean
pub fn show(v: Fx) -> String {
    match v {
        Fx::Nan => "nan".into(),
        Fx::Inf(n) => if n { "-inf".into() } else { "inf".into() },
        Fx::Fin(n, 0, _) => if n { "-0".into() } else { "0".into() },
        Fx::Fin(n, mut m, mut e) => {
            while m % 2 == 0 {
                m /= 2;
                e += 1;
            }
            format!("{}{}e{}", if n { "-" } else { "" }, m, e)
        }
    }
}

/// exact `±m·2^e` rounded to the nearest integer, ties away from zero, clamped to `lo..=hi`
fn rha_sat(neg: bool, m: u64, e: i32, lo: i64, hi: i64) -> i64 {
    let mag: u128 = if m == 0 {
        0
    } else if e >= 0 {
        if e >= 64 { u128::MAX >> 2 } else { (m as u128) << e }
    } else {
        let s = -e;
        if s >= 120 { 0 } else { let g = 1u128 << s; (2 * m as u128 + g) / (2 * g) }
    };
    if neg {
        if mag >= (-(lo as i128)) as u128 { lo } else { -(mag as i64) }
    } else if mag >= hi as u128 { hi } else { mag as i64 }
}

/// exact `floor(±m·2^e + 1/2)` clamped to `lo..=hi` ("round half up, then saturate")
fn half_up_sat(neg: bool, m: u64, e: i32, lo: i64, hi: i64) -> i64 {
    let v: i128 = if m == 0 {
        0
    } else if e >= 0 {
        let mag = if e >= 64 { i128::MAX >> 2 } else { (m as i128) << e };
        if neg { -mag } else { mag }
    } else {
        let s = -e;
        if s >= 120 {
            0 // |x| < 2^-56: x + 1/2 lies strictly between 0 and 1
        } else {
            let g = 1i128 << s;
            let sm = if neg { -(m as i128) } else { m as i128 };
            (2 * sm + g).div_euclid(2 * g)
        }
    };
    v.clamp(lo as i128, hi as i128) as i64
}

fn next_up32(x: f32) -> f32 {
    if x.is_nan() || x == f32::INFINITY { return x; }
    if x == 0.0 { return f32::from_bits(1); }
    let b = x.to_bits();
    f32::from_bits(if x > 0.0 { b + 1 } else { b - 1 })
}
fn next_down32(x: f32) -> f32 { -next_up32(-x) }
fn next_up64(x: f64) -> f64 {
    if x.is_nan() || x == f64::INFINITY { return x; }
    if x == 0.0 { return f64::from_bits(1); }
    let b = x.to_bits();
    f64::from_bits(if x > 0.0 { b + 1 } else { b - 1 })
}
fn next_down64(x: f64) -> f64 { -next_up64(-x) }

fn push3_32(v: &mut Vec<f32>, x: f32) {
    v.push(x);
    v.push(next_up32(x));
    v.push(next_down32(x));
    v.push(-x);
}
fn push3_64(v: &mut Vec<f64>, x: f64) {
    v.push(x);
    v.push(next_up64(x));
    v.push(next_down64(x));
    v.push(-x);
}

/// f32 inputs for a 16-bit fixed type with `k` fraction bits: a grid around representable
/// values (`v + d/4` for d = -3..3, each ±1 ulp), every power of two ±1 ulp, the range ends,
/// subnormals, infinities, NaNs, huge values, random bit patterns.
fn inputs32(k: u32, rng: &mut Rng, thorough: bool) -> Vec<f32> {
    let one = (1u32 << k) as f32;
    let mut v: Vec<f32> = vec![];
    let mut raws: Vec<i32> = vec![];
    for b in [0i32, 1, 2, 3, 255, 256, 0x3FFF, 0x4000, 0x7FFD, 0x7FFE, 0x7FFF, 0x8000, 0x8001] {
        raws.push(b);
        raws.push(-b);
    }
    let n_rand = if thorough { 6000 } else { 600 };
    for _ in 0..n_rand {
        raws.push(rng.range(-0x8002, 0x8002) as i32);
    }
    for r in raws {
        for d in -3i32..=3 {
            // (4r + d) / 2^(k+2) is exact in f32: |4r + d| < 2^19
            let x = (4 * r + d) as f32 / (one * 4.0);
            push3_32(&mut v, x);
        }
    }
    for j in -149i32..=127 {
        let p = if j < -126 { f32::from_bits(1u32 << (j + 149)) } else { f32::from_bits(((j + 127) as u32) << 23) };
        push3_32(&mut v, p);
        // just below / above a half-way point: 1.5 * 2^j
        push3_32(&mut v, p * 1.5);
    }
    for s in [0.0f32, f32::MIN_POSITIVE, f32::from_bits(1), f32::from_bits(0x7F_FFFF), f32::MAX, f32::INFINITY,
              1.0e6, 1.0e30, 32767.0, 32768.0, 65535.0, 65536.0, 2147483648.0, 4294967296.0] {
        push3_32(&mut v, s);
    }
    // the largest float below one half, scaled: `+ 0.5` used to round it up to 1
    let below_half = f32::from_bits(0.5f32.to_bits() - 1);
    push3_32(&mut v, below_half / one);
    push3_32(&mut v, (1.0 + below_half) / one);
    for bits in [0x7FC0_0000u32, 0xFFC0_0000, 0x7F80_0001, 0xFFFF_FFFF, 0x7FA0_0000] {
        v.push(f32::from_bits(bits)); // NaNs: quiet / signalling, both signs
    }
    let n_bits = if thorough { 200_000 } else { 20_000 };
    for _ in 0..n_bits {
        v.push(f32::from_bits(rng.next() as u32));
        // in and near the range, random significand
        let e = rng.range(-(k as i64) - 3, 18 - k as i64) as i32;
        let m = (rng.next() & 0x7F_FFFF) as u32;
        let sign = (rng.next() & 1) as u32;
        v.push(f32::from_bits((sign << 31) | (((e + 127) as u32) << 23) | m));
    }
    v
}

fn inputs64(k: u32, rng: &mut Rng, thorough: bool) -> Vec<f64> {
    let one = (1u64 << k) as f64;
    let mut v: Vec<f64> = vec![];
    let mut raws: Vec<i64> = vec![];
    for b in boundary_i32() {
        raws.push(b as i64);
    }
    for b in [0x7FFF_FFFDi64, 0x7FFF_FFFE, 0x7FFF_FFFF, 0x8000_0000, 0x8000_0001, 0x8000_0002] {
        raws.push(b);
        raws.push(-b);
    }
    let n_rand = if thorough { 6000 } else { 400 };
    for _ in 0..n_rand {
        raws.push((rng.next() as i32 >> rng.below(32)) as i64);
    }
    for r in raws {
        for d in -3i64..=3 {
            let x = (4 * r + d) as f64 / (one * 4.0); // exact: |4r + d| < 2^35
            push3_64(&mut v, x);
        }
    }
    for j in (-1074i32..=1023).filter(|j| thorough || j.abs() < 80 || j % 7 == 0 || *j > 1015 || *j < -1060) {
        let p = if j < -1022 { f64::from_bits(1u64 << (j + 1074)) } else { f64::from_bits(((j + 1023) as u64) << 52) };
        push3_64(&mut v, p);
        push3_64(&mut v, p * 1.5);
    }
    for s in [0.0f64, f64::MIN_POSITIVE, f64::from_bits(1), f64::from_bits(0xF_FFFF_FFFF_FFFF), f64::MAX, f64::INFINITY,
              1.0e12, 1.0e300, 32767.0, 32768.0, 2147483647.0, 2147483648.0, 4294967296.0, 9007199254740992.0, 9007199254740993.0] {
        push3_64(&mut v, s);
    }
    let below_half = f64::from_bits(0.5f64.to_bits() - 1);
    push3_64(&mut v, below_half / one);
    push3_64(&mut v, (1.0 + below_half) / one);
    for bits in [0x7FF8_0000_0000_0000u64, 0xFFF8_0000_0000_0000, 0x7FF0_0000_0000_0001, u64::MAX] {
        v.push(f64::from_bits(bits));
    }
    let n_bits = if thorough { 200_000 } else { 12_000 };
    for _ in 0..n_bits {
        v.push(f64::from_bits(rng.next()));
        let e = rng.range(-(k as i64) - 3, 34 - k as i64);
        let m = rng.next() & 0xF_FFFF_FFFF_FFFF;
        let sign = rng.next() & 1;
        v.push(f64::from_bits((sign << 63) | (((e + 1023) as u64) << 52) | m));
    }
    v
}

/// one type's `from_fN`: correspondence + nearest / saturation / NaN / monotonicity oracles
macro_rules! from_float {
    ($s:expr, $T:ident, $from:ident, $fty:ty, $dec:ident, $code:expr, $k:expr, $lo:expr, $hi:expr, $inputs:expr, $group:expr) => {{
        let mut seen: Vec<($fty, i64)> = vec![];
        for &x in $inputs.iter() {
            let got = catch(|| $T::$from(x).to_bits() as i64);
            $s.case($group, format!("fl.from {} {}", $code, x.to_bits()), trap_or(got.clone()));
            let name = stringify!($T);
            match $dec(x) {
                Fx::Nan => {
                    $s.count(concat!("from_float:", stringify!($T), ":nan"));
                    $s.oracle("from_float-nan-is-zero", got == Ok(0), || format!("{name}::{}(NaN bits {:#x})", stringify!($from), x.to_bits()), || format!("{got:?}"));
                }
                Fx::Inf(neg) => {
                    let want = if neg { $lo } else { $hi };
                    $s.count(concat!("from_float:", stringify!($T), ":inf"));
                    $s.oracle("from_float-saturates", got == Ok(want), || format!("{name}::{}({}inf)", stringify!($from), if neg { "-" } else { "" }), || format!("got {got:?} want {want}"));
                }
                Fx::Fin(neg, m, e) => {
                    let want = rha_sat(neg, m, e + $k as i32, $lo, $hi);
                    // is the exact scaled value within half a unit of the range (nearest value exists inside)?
                    let unsat = rha_sat(neg, m, e + $k as i32, i64::MIN / 4, i64::MAX / 4);
                    let inside = unsat >= $lo && unsat <= $hi;
                    if inside {
                        $s.count(concat!("from_float:", stringify!($T), ":in-range"));
                        // which branch of the conversion: the exact remainder after truncation
                        let es = e + $k as i32;
                        $s.count(if m == 0 { "from_float:branch:zero" } else if es >= 0 { "from_float:branch:integer(rem=0)" } else if -es >= 100 { "from_float:branch:tiny(rem<1/2)" } else {
                            let g = 1u128 << (-es);
                            let r = (m as u128) % g;
                            if r == 0 { "from_float:branch:integer(rem=0)" } else if 2 * r == g { if neg { "from_float:branch:rem=-1/2(tie)" } else { "from_float:branch:rem=+1/2(tie)" } }
                            else if 2 * r > g { if neg { "from_float:branch:rem<-1/2" } else { "from_float:branch:rem>1/2" } } else { "from_float:branch:|rem|<1/2" }
                        });
                        $s.oracle("from_float-nearest-ties-away", got == Ok(want),
                            || format!("{name}::{}({}{}*2^{} bits {:#x})", stringify!($from), if neg { "-" } else { "" }, m, e, x.to_bits()),
                            || format!("got {got:?} want {want} (exact value * 2^{} rounded half away from zero)", $k));
                    } else {
                        $s.count(concat!("from_float:", stringify!($T), ":out-of-range"));
                        $s.oracle("from_float-saturates", got == Ok(want),
                            || format!("{name}::{}({}{}*2^{} bits {:#x})", stringify!($from), if neg { "-" } else { "" }, m, e, x.to_bits()),
                            || format!("got {got:?} want {want} (MIN/MAX)"));
                    }
                    if let Ok(g) = got {
                        seen.push((x, g));
                    }
                }
            }
        }
        // monotone: x <= y => from(x) <= from(y)
        seen.sort_by(|a, b| a.0.partial_cmp(&b.0).unwrap());
        // the model's float comparison (hypothesis of the monotonicity theorem) against the real `<=`
        for (i, w) in seen.windows(2).enumerate() {
            if i % 7 == 0 {
                let (x, y) = (w[0].0, w[1].0);
                let fb = std::mem::size_of::<$fty>() * 8;
                $s.case("float <=", format!("fl.le {} {} {}", fb, x.to_bits(), y.to_bits()), ((x <= y) as u8).to_string());
                $s.case("float <=", format!("fl.le {} {} {}", fb, y.to_bits(), x.to_bits()), ((y <= x) as u8).to_string());
                let z = seen[(i * 31 + 7) % seen.len()].0;
                $s.case("float <=", format!("fl.le {} {} {}", fb, x.to_bits(), z.to_bits()), ((x <= z) as u8).to_string());
            }
        }
        for w in seen.windows(2) {
            $s.oracle("from_float-monotone", w[0].1 <= w[1].1,
                || format!("{}::{}: x = bits {:#x} <= y = bits {:#x}", stringify!($T), stringify!($from), w[0].0.to_bits(), w[1].0.to_bits()),
                || format!("from(x) = {} > from(y) = {}", w[0].1, w[1].1));
        }
    }};
}

/// `to_fN` of one raw value: correspondence (exact value), exactness and round-trip oracles
macro_rules! to_float {
    ($s:expr, $T:ident, $to:ident, $from:ident, $dec:ident, $code:expr, $k:expr, $raw:expr, $group:expr) => {{
        let t = $T::from_bits($raw);
        let f = t.$to();
        $s.case($group, format!("fl.to {} {}", $code, $raw), show($dec(f)));
        let exact = match $dec(f) {
            // m·2^e == raw·2^-k
            Fx::Fin(_, 0, _) => $raw == 0,
            Fx::Fin(neg, m, e) => {
                let lhs = if neg { -(m as i128) } else { m as i128 };
                let (sl, sr) = if e + $k as i32 >= 0 { ((e + $k as i32) as u32, 0u32) } else { (0u32, (-(e + $k as i32)) as u32) };
                sl < 64 && sr < 64 && (lhs << sl) == (($raw as i128) << sr)
            }
            _ => false,
        };
        $s.oracle("to_float-exact", exact, || format!("{}({}).{}()", stringify!($T), $raw, stringify!($to)), || show($dec(f)));
        $s.oracle("float-roundtrip", $T::$from(f) == t, || format!("{}({})", stringify!($T), $raw), || format!("{}", $T::$from(f).to_bits()));
    }};
}

/// is `x + 0.5` exactly representable with `p` significant bits (x = ±m·2^e)?
fn sum_class(neg: bool, m: u64, e: i32, p: u32) -> &'static str {
    if m == 0 { return "x=0"; }
    let (a, _e0): (i128, i32) = if e >= 0 {
        if e > 60 { return "sum-inexact(|x|>=2^60)"; }
        ((if neg { -1 } else { 1 }) * ((m as i128) << (e + 1)) + 1, -1)
    } else {
        if -1 - e > 100 { return "sum-inexact(tiny x)"; }
        ((if neg { -1 } else { 1 }) * (m as i128) + (1i128 << (-1 - e)), e)
    };
    let bits = 128 - a.unsigned_abs().leading_zeros();
    if a == 0 { "sum=0" } else if bits <= p { "sum-exact" } else if a.unsigned_abs().trailing_zeros() >= bits - p { "sum-exact(trailing zeros)" } else { "sum-inexact" }
}

fn is_exact_half(m: u64, e: i32) -> bool {
    e < 0 && -e < 63 && (m % (1u64 << (-e))) * 2 == (1u64 << (-e))
}

fn ot_round_cases(s: &mut Session, rng: &mut Rng, thorough: bool) {
    // f64 inputs: ±n.5, ±(n.5 ± ulp), ±n, ±(n ± ulp) for small n and around the i16 / u16 range ends
    let mut xs: Vec<f64> = vec![];
    let mut ns: Vec<i64> = (0..=40).collect();
    for b in [127i64, 128, 255, 256, 32766, 32767, 32768, 32769, 65534, 65535, 65536, 65537, 1 << 23, (1 << 23) + 1, (1 << 24) - 1, 1 << 24, (1 << 24) + 1, 1 << 31, 1 << 32] {
        ns.push(b);
    }
    for _ in 0..if thorough { 5000 } else { 300 } {
        ns.push(rng.range(0, 70000));
    }
    for n in ns {
        for q in [0.0f64, 0.25, 0.5, 0.75] {
            push3_64(&mut xs, n as f64 + q);
        }
    }
    for j in (-1074i32..=1023).filter(|j| thorough || j.abs() < 70 || j % 13 == 0 || *j > 1015 || *j < -1060) {
        let p = if j < -1022 { f64::from_bits(1u64 << (j + 1074)) } else { f64::from_bits(((j + 1023) as u64) << 52) };
        push3_64(&mut xs, p);
        push3_64(&mut xs, p * 1.5);
    }
    for sp in [0.0f64, f64::INFINITY, f64::MAX, f64::MIN_POSITIVE, f64::from_bits(1), 4503599627370496.0, 4503599627370497.0,
               4503599627370495.5, 9007199254740991.0, 9007199254740992.0, 2251799813685247.5, 2251799813685248.5] {
        push3_64(&mut xs, sp);
    }
    for bits in [0x7FF8_0000_0000_0000u64, 0xFFF8_0000_0000_0000, 0x7FF0_0000_0000_0001] {
        xs.push(f64::from_bits(bits));
    }
    for _ in 0..if thorough { 100_000 } else { 6000 } {
        xs.push(f64::from_bits(rng.next()));
        let e = rng.range(-4, 18);
        let m = rng.next() & 0xF_FFFF_FFFF_FFFF;
        xs.push(f64::from_bits(((rng.next() & 1) << 63) | (((e + 1023) as u64) << 52) | m));
    }
    let mut ys: Vec<f32> = vec![];
    for &x in xs.iter() {
        // every f64 input that is exactly an f32 is also an f32 input; plus neighbours of the rest
        let y = x as f32;
        ys.push(y);
        if y as f64 != x {
            ys.push(next_up32(y));
            ys.push(next_down32(y));
        }
    }
    for sp in [8388607.5f32, 8388608.0, 8388609.0, 16777215.0, 16777216.0, 4194303.5, 4194304.5, f32::MAX, f32::from_bits(1), f32::from_bits(0.5f32.to_bits() - 1)] {
        push3_32(&mut ys, sp);
    }
    ys.sort_by(|a, b| a.to_bits().cmp(&b.to_bits()));
    ys.dedup_by(|a, b| a.to_bits() == b.to_bits());
    s.notes.push(format!("ot_round inputs: {} f64, {} f32", xs.len(), ys.len()));

    // the largest float below one half: `x + 0.5` rounds to 1.0 in the float type, so the code
    // (like fontTools' otRound, `int(math.floor(v + 0.5))`) returns 1 where exact arithmetic gives 0;
    // an odd integer of magnitude in [2^(p-1), 2^p) plus 0.5 is a tie that rounds to the even neighbour
    let below_half64 = f64::from_bits(0.5f64.to_bits() - 1);
    let below_half32 = f32::from_bits(0.5f32.to_bits() - 1);
    for (i, &x) in xs.iter().enumerate() {
        let bits = x.to_bits();
        let r16: Result<i16, _> = catch(|| x.ot_round());
        let ru16: Result<u16, _> = catch(|| x.ot_round());
        let rf: f64 = x.ot_round();
        s.case("OtRound<i16> for f64", format!("otr.i16 64 {bits}"), trap_or(r16.clone()));
        s.case("OtRound<u16> for f64", format!("otr.u16 64 {bits}"), trap_or(ru16.clone()));
        s.case("OtRound<f64> for f64", format!("otr.f 64 {bits}"), show(dec64(rf)));
        match dec64(x) {
            Fx::Fin(neg, m, e) => {
                let tag = |what: &str| format!("{what}: {}{}*2^{} (f64 bits {:#x}){}", if neg { "-" } else { "" }, m, e, bits,
                    if x == below_half64 { " [largest f64 below 0.5]" } else { "" });
                let w16 = half_up_sat(neg, m, e, -32768, 32767);
                s.oracle("ot_round=half-up-then-saturate", r16 == Ok(w16 as i16), || tag("f64 -> i16"), || format!("got {r16:?} want {w16}"));
                let wu = half_up_sat(neg, m, e, 0, 65535);
                s.oracle("ot_round=half-up-then-saturate", ru16 == Ok(wu as u16), || tag("f64 -> u16"), || format!("got {ru16:?} want {wu}"));
                // float target: exact while |x| < 2^52 (beyond that every f64 is an integer)
                if x.abs() < 4503599627370496.0 {
                    let w = half_up_sat(neg, m, e, -(1i64 << 53), 1i64 << 53);
                    s.oracle("ot_round=half-up-then-saturate", rf == w as f64, || tag("f64 -> f64"), || format!("got {} want {w}", show(dec64(rf))));
                } else {
                    let odd = e == 0 && m % 2 == 1;
                    s.count(if odd { "ot_round:f64:odd-integer>=2^52" } else { "ot_round:f64:integer>=2^52" });
                    s.oracle("ot_round-idempotent-on-integers", rf == x, || format!("{}{}", tag("f64 -> f64"), if odd { " [odd integer of magnitude in [2^52, 2^53)]" } else { "" }), || format!("got {}", show(dec64(rf))));
                }
                s.count(&format!("ot_round:f64:{}", sum_class(neg, m, e, 53)));
                s.count(if is_exact_half(m, e) {
                    if neg { "ot_round:f64:negative-exact-half" } else { "ot_round:f64:positive-exact-half" }
                } else { "ot_round:f64:other" });
            }
            Fx::Inf(neg) => {
                s.oracle("ot_round-saturates", r16 == Ok(if neg { i16::MIN } else { i16::MAX }) && ru16 == Ok(if neg { 0 } else { u16::MAX }) && rf == x,
                    || format!("f64 {}inf", if neg { "-" } else { "" }), || format!("{r16:?} {ru16:?}"));
            }
            Fx::Nan => {
                s.oracle("ot_round-nan", r16 == Ok(0) && ru16 == Ok(0) && rf.is_nan(), || "f64 NaN".into(), || format!("{r16:?} {ru16:?}"));
            }
        }
        // Point / Vec2: component-wise, paired with another input
        let y = xs[(i * 7 + 3) % xs.len()];
        let p: Result<(i16, i16), _> = catch(|| write_fonts::OtRound::ot_round(kurbo::Point::new(x, y)));
        s.case("OtRound<(i16,i16)> for Point", format!("otr.point {} {}", bits, y.to_bits()), match &p { Ok((a, b)) => format!("{a} {b}"), Err(_) => "trap".into() });
        let v: kurbo::Vec2 = kurbo::Vec2::new(x, y).ot_round();
        s.case("OtRound<Vec2> for Vec2", format!("otr.vec2 {} {}", bits, y.to_bits()), format!("{} {}", show(dec64(v.x)), show(dec64(v.y))));
        // exact arithmetic, per component (the two documented double-rounding inputs are covered by the scalar oracles)
        if let (Fx::Fin(nx, mx, ex), Fx::Fin(ny, my, ey)) = (dec64(x), dec64(y)) {
            if x != below_half64 && y != below_half64 {
                let want = (half_up_sat(nx, mx, ex, -32768, 32767) as i16, half_up_sat(ny, my, ey, -32768, 32767) as i16);
                s.oracle("ot_round-point=half-up-then-saturate", p == Ok(want), || format!("Point({x:e}, {y:e}) (bits {:#x}, {:#x})", bits, y.to_bits()), || format!("got {p:?} want {want:?}"));
                if x.abs() < 4503599627370496.0 && y.abs() < 4503599627370496.0 {
                    let wv = (half_up_sat(nx, mx, ex, -(1i64 << 53), 1i64 << 53) as f64, half_up_sat(ny, my, ey, -(1i64 << 53), 1i64 << 53) as f64);
                    s.oracle("ot_round-vec2=half-up", v.x == wv.0 && v.y == wv.1, || format!("Vec2({x:e}, {y:e}) (bits {:#x}, {:#x})", bits, y.to_bits()), || format!("got ({}, {}) want ({}, {})", show(dec64(v.x)), show(dec64(v.y)), wv.0, wv.1));
                }
            }
        }
        let (sx, sy): (i16, i16) = (x.ot_round(), y.ot_round());
        let (fx, fy): (f64, f64) = (x.ot_round(), y.ot_round());
        s.oracle("ot_round-point-is-componentwise-scalar", p == Ok((sx, sy)), || format!("Point(bits {:#x}, bits {:#x}) = ({x:e}, {y:e})", bits, y.to_bits()), || format!("got {p:?} want ({sx}, {sy})"));
        s.oracle("ot_round-vec2-is-componentwise-scalar", v.x.to_bits() == fx.to_bits() && v.y.to_bits() == fy.to_bits(),
            || format!("Vec2(bits {:#x}, bits {:#x}) = ({x:e}, {y:e})", bits, y.to_bits()), || format!("got ({}, {}) want ({}, {})", show(dec64(v.x)), show(dec64(v.y)), show(dec64(fx)), show(dec64(fy))));
    }
    for &x in ys.iter() {
        let bits = x.to_bits();
        let r16: Result<i16, _> = catch(|| x.ot_round());
        let ru16: Result<u16, _> = catch(|| x.ot_round());
        let rf: f32 = x.ot_round();
        s.case("OtRound<i16> for f32", format!("otr.i16 32 {bits}"), trap_or(r16.clone()));
        s.case("OtRound<u16> for f32", format!("otr.u16 32 {bits}"), trap_or(ru16.clone()));
        s.case("OtRound<f32> for f32", format!("otr.f 32 {bits}"), show(dec32(rf)));
        if let Fx::Fin(neg, m, e) = dec32(x) {
            let tag = |what: &str| format!("{what}: {}{}*2^{} (f32 bits {:#x}){}", if neg { "-" } else { "" }, m, e, bits,
                if x == below_half32 { " [largest f32 below 0.5]" } else { "" });
            s.count(&format!("ot_round:f32:{}", sum_class(neg, m, e, 24)));
            let w16 = half_up_sat(neg, m, e, -32768, 32767);
            s.oracle("ot_round=half-up-then-saturate", r16 == Ok(w16 as i16), || tag("f32 -> i16"), || format!("got {r16:?} want {w16}"));
            let wu = half_up_sat(neg, m, e, 0, 65535);
            s.oracle("ot_round=half-up-then-saturate", ru16 == Ok(wu as u16), || tag("f32 -> u16"), || format!("got {ru16:?} want {wu}"));
            if x.abs() < 8388608.0 {
                let w = half_up_sat(neg, m, e, -(1i64 << 24), 1i64 << 24);
                s.oracle("ot_round=half-up-then-saturate", rf == w as f32, || tag("f32 -> f32"), || format!("got {} want {w}", show(dec32(rf))));
            } else {
                let odd = e == 0 && m % 2 == 1;
                s.count(if odd { "ot_round:f32:odd-integer>=2^23" } else { "ot_round:f32:integer>=2^23" });
                s.oracle("ot_round-idempotent-on-integers", rf == x, || format!("{}{}", tag("f32 -> f32"), if odd { " [odd integer of magnitude in [2^23, 2^24)]" } else { "" }), || format!("got {}", show(dec32(rf))));
            }
        }
    }
}

pub fn run(cfg: &Config, s: &mut Session, rng: &mut Rng) {
    let thorough = cfg.thorough();
    // ---- decode: the protocol's float encoding itself
    for _ in 0..2000 {
        let b = rng.next() as u32;
        s.case("f32 bits", format!("fl.dec 32 {b}"), show(dec32(f32::from_bits(b))));
        let b = rng.next();
        s.case("f64 bits", format!("fl.dec 64 {b}"), show(dec64(f64::from_bits(b))));
    }
    // ---- from_f32 / from_f64
    for (k, which) in [(14u32, 0), (12, 1), (10, 2)] {
        let xs = inputs32(k, rng, thorough);
        s.notes.push(format!("from_f32 inputs (k={k}): {}", xs.len()));
        match which {
            0 => from_float!(s, F2Dot14, from_f32, f32, dec32, 214, 14, -32768i64, 32767i64, xs, "F2Dot14::from_f32"),
            1 => from_float!(s, F4Dot12, from_f32, f32, dec32, 412, 12, -32768i64, 32767i64, xs, "F4Dot12::from_f32"),
            _ => from_float!(s, F6Dot10, from_f32, f32, dec32, 610, 10, -32768i64, 32767i64, xs, "F6Dot10::from_f32"),
        }
    }
    let xs = inputs64(16, rng, thorough);
    s.notes.push(format!("from_f64 inputs (k=16): {}", xs.len()));
    from_float!(s, Fixed, from_f64, f64, dec64, 1616, 16, i32::MIN as i64, i32::MAX as i64, xs, "Fixed::from_f64");
    let xs = inputs64(6, rng, thorough);
    from_float!(s, F26Dot6, from_f64, f64, dec64, 266, 6, i32::MIN as i64, i32::MAX as i64, xs, "F26Dot6::from_f64");

    // ---- to_f32 / to_f64: exhaustive for the 16-bit types
    for v in i16::MIN..=i16::MAX {
        to_float!(s, F2Dot14, to_f32, from_f32, dec32, 214, 14, v, "F2Dot14::to_f32");
        if thorough || v % 5 == 0 || v > i16::MAX - 300 || v < i16::MIN + 300 || (v > -300 && v < 300) {
            to_float!(s, F4Dot12, to_f32, from_f32, dec32, 412, 12, v, "F4Dot12::to_f32");
            to_float!(s, F6Dot10, to_f32, from_f32, dec32, 610, 10, v, "F6Dot10::to_f32");
        } else {
            let (a, b) = (F4Dot12::from_bits(v), F6Dot10::from_bits(v));
            s.oracle("float-roundtrip", F4Dot12::from_f32(a.to_f32()) == a && F6Dot10::from_f32(b.to_f32()) == b, || format!("F4Dot12/F6Dot10({v})"), || String::new());
        }
    }
    let mut raws: Vec<i32> = boundary_i32();
    for _ in 0..if thorough { 300_000 } else { 20_000 } {
        raws.push((rng.next() as i32) >> rng.below(32));
    }
    for &v in &raws {
        to_float!(s, Fixed, to_f64, from_f64, dec64, 1616, 16, v, "Fixed::to_f64");
        to_float!(s, F26Dot6, to_f64, from_f64, dec64, 266, 6, v, "F26Dot6::to_f64");
        // documented as lossy: the nearest f32 (one rounding of the exact value)
        let l = Fixed::from_bits(v).to_f32();
        s.case("Fixed::to_f32", format!("fl.tof32 16 {v}"), show(dec32(l)));
        s.oracle("to_f32-is-nearest-f32", l == (v as f64 / 65536.0) as f32, || format!("Fixed({v}).to_f32()"), || show(dec32(l)));
        let l6 = F26Dot6::from_bits(v).to_f32();
        s.case("F26Dot6::to_f32", format!("fl.tof32 6 {v}"), show(dec32(l6)));
        s.oracle("to_f32-is-nearest-f32", l6 == (v as f64 / 64.0) as f32, || format!("F26Dot6({v}).to_f32()"), || show(dec32(l6)));
        s.count(if v.unsigned_abs().leading_zeros() + v.unsigned_abs().trailing_zeros() >= 8 || v == 0 { "to_f32:exact(<=24 significant bits)" } else { "to_f32:rounded" });
        if v.unsigned_abs() < (1 << 24) {
            s.oracle("to_f32-exact-below-2^24", l as f64 == v as f64 / 65536.0 && Fixed::from_f64(l as f64).to_bits() == v, || format!("Fixed({v}).to_f32()"), || show(dec32(l)));
        }
    }
    ot_round_cases(s, rng, thorough);
}
