//! C09 — glyph outlines written to glyf/loca are the outlines read and drawn back.
//! Correspondence: write-fonts glyph writer / read-fonts glyph reader / loca vs Model/Glyf.lean.
//! Oracles (model independent): write -> read round trips (points, flags, end points, bbox,
//! instructions, components), canonical-shortest length, GlyfLocaBuilder + get_glyf (incl. builder HISTORIES in
//! which add_glyph rejects glyphs in the middle and the caller carries on), BezPath ->
//! glyph -> font -> skrifa draw (segments up to rotation for arbitrary paths; the exact move / line / quad / close
//! sequence for closed integer paths whose on-curve joins sit on or next to the midpoint of their control points).
use font_types::{F2Dot14, GlyphId, GlyphId16};
use fv_harness::common::*;
use read_fonts::tables::glyf as rglyf;
use read_fonts::tables::glyf::CurvePoint;
use read_fonts::{FontData, FontRead, FontRef};
use skrifa::MetadataProvider;
use write_fonts::from_obj::FromTableRef;
use write_fonts::tables::glyf::{
    Anchor, Bbox, Component, ComponentFlags, CompositeGlyph, Contour, GlyfLocaBuilder, Glyph,
    SimpleGlyph, Transform,
};
use write_fonts::tables::loca::{Loca, LocaFormat};

// ---------------------------------------------------------------- glyph specs

#[derive(Clone, Debug, PartialEq)]
struct SG {
    bbox: [i16; 4],
    instr: Vec<u8>,
    contours: Vec<Vec<(i16, i16, bool)>>,
}

#[derive(Clone, Debug, PartialEq)]
enum An {
    Off(i16, i16),
    Pt(u16, u16),
}

#[derive(Clone, Debug, PartialEq)]
struct Comp {
    glyph: u16,
    anchor: An,
    uflags: u8, // 5 bits: round_xy, use_my_metrics, scaled, unscaled, overlap
    tr: [i16; 4], // xx yx xy yy
}

#[derive(Clone, Debug, PartialEq)]
struct CG {
    bbox: [i16; 4],
    comps: Vec<Comp>,
    instr: Vec<u8>,
}

#[derive(Clone, Debug, PartialEq)]
enum G {
    E,
    S(SG),
    C(CG),
}

fn sg_spec(g: &SG) -> String {
    let mut s = format!(
        "{} {} {} {} {} {}",
        g.bbox[0], g.bbox[1], g.bbox[2], g.bbox[3], hex(&g.instr), g.contours.len()
    );
    for c in &g.contours {
        s.push_str(&format!(" {}", c.len()));
    }
    for c in &g.contours {
        for p in c {
            s.push_str(&format!(" {} {} {}", p.0, p.1, p.2 as u8));
        }
    }
    s
}

fn cg_spec(g: &CG) -> String {
    let mut s = format!(
        "{} {} {} {} {} {}",
        g.bbox[0], g.bbox[1], g.bbox[2], g.bbox[3], hex(&g.instr), g.comps.len()
    );
    for c in &g.comps {
        let a = match c.anchor {
            An::Off(x, y) => format!("o {x} {y}"),
            An::Pt(b, c) => format!("p {b} {c}"),
        };
        s.push_str(&format!(
            " {} {} {} {} {} {} {}",
            c.glyph, a, c.uflags, c.tr[0], c.tr[1], c.tr[2], c.tr[3]
        ));
    }
    s
}

fn g_spec(g: &G) -> String {
    match g {
        G::E => "E".into(),
        G::S(s) => format!("S {}", sg_spec(s)),
        G::C(c) => format!("C {}", cg_spec(c)),
    }
}

fn bbox_of(b: [i16; 4]) -> Bbox {
    Bbox { x_min: b[0], y_min: b[1], x_max: b[2], y_max: b[3] }
}

fn sg_real(g: &SG) -> SimpleGlyph {
    SimpleGlyph {
        bbox: bbox_of(g.bbox),
        contours: g
            .contours
            .iter()
            .map(|c| Contour::from(c.iter().map(|p| CurvePoint::new(p.0, p.1, p.2)).collect::<Vec<_>>()))
            .collect(),
        instructions: g.instr.clone(),
    }
}

fn comp_real(c: &Comp) -> Component {
    let anchor = match c.anchor {
        An::Off(x, y) => Anchor::Offset { x, y },
        An::Pt(base, component) => Anchor::Point { base, component },
    };
    let flags = ComponentFlags {
        round_xy_to_grid: c.uflags & 1 != 0,
        use_my_metrics: c.uflags & 2 != 0,
        scaled_component_offset: c.uflags & 4 != 0,
        unscaled_component_offset: c.uflags & 8 != 0,
        overlap_compound: c.uflags & 16 != 0,
    };
    let t = Transform {
        xx: F2Dot14::from_bits(c.tr[0]),
        yx: F2Dot14::from_bits(c.tr[1]),
        xy: F2Dot14::from_bits(c.tr[2]),
        yy: F2Dot14::from_bits(c.tr[3]),
    };
    Component::new(GlyphId16::new(c.glyph), anchor, t, flags)
}

/// a composite glyph with instructions can only be obtained by reading one: build the bytes by
/// hand from the instruction-free encoding (set WE_HAVE_INSTRUCTIONS on the last component).
fn cg_real(g: &CG) -> Option<CompositeGlyph> {
    if g.comps.is_empty() {
        return None;
    }
    let mut cg = CompositeGlyph::new(comp_real(&g.comps[0]), bbox_of(g.bbox));
    for c in &g.comps[1..] {
        cg.add_component(comp_real(c), bbox_of(g.bbox));
    }
    cg.bbox = bbox_of(g.bbox);
    if g.instr.is_empty() {
        return Some(cg);
    }
    let mut bytes = write_fonts::dump_table(&cg).ok()?;
    // locate the last component's flags word
    let rg = rglyf::CompositeGlyph::read(FontData::new(&bytes)).ok()?;
    let mut pos = 10usize;
    let mut last = pos;
    for c in rg.components() {
        last = pos;
        let f = c.flags.bits();
        pos += 4 + if f & 1 != 0 { 4 } else { 2 };
        pos += if f & 8 != 0 { 2 } else if f & 0x40 != 0 { 4 } else if f & 0x80 != 0 { 8 } else { 0 };
    }
    bytes.truncate(pos);
    bytes[last] |= 0x01; // WE_HAVE_INSTRUCTIONS = 0x0100
    bytes.extend_from_slice(&(g.instr.len() as u16).to_be_bytes());
    bytes.extend_from_slice(&g.instr);
    let rg = rglyf::CompositeGlyph::read(FontData::new(&bytes)).ok()?;
    Some(CompositeGlyph::from_table_ref(&rg))
}

fn g_real(g: &G) -> Option<Glyph> {
    Some(match g {
        G::E => Glyph::Empty,
        G::S(s) => Glyph::Simple(sg_real(s)),
        G::C(c) => Glyph::Composite(cg_real(c)?),
    })
}

/// dump_table outcome in the protocol's vocabulary
fn write_outcome(g: &Glyph) -> (String, Option<Vec<u8>>) {
    match catch(|| write_fonts::dump_table(g)) {
        Ok(Ok(b)) => (hex(&b), Some(b)),
        Ok(Err(_)) => ("invalid".into(), None),
        Err(_) => ("trap".into(), None),
    }
}

// ---------------------------------------------------------------- reading (canonical rendering)

fn join_i<T: std::fmt::Display>(xs: &[T]) -> String {
    join(xs)
}

fn show_simple(g: &rglyf::SimpleGlyph) -> String {
    let endpts: Vec<u16> = g.end_pts_of_contours().iter().map(|x| x.get()).collect();
    let pts: Vec<i32> = g
        .points()
        .flat_map(|p| [p.x as i32, p.y as i32, p.on_curve as i32])
        .collect();
    let n = g.num_points();
    let mut fp = vec![read_fonts::types::Point::<i32>::default(); n];
    let mut ff = vec![rglyf::PointFlags::default(); n];
    let fast = match g.read_points_fast(&mut fp, &mut ff) {
        Ok(()) => {
            let v: Vec<i32> = fp
                .iter()
                .zip(ff.iter())
                .flat_map(|(p, f)| [p.x, p.y, f.to_bits() as i32])
                .collect();
            join_i(&v)
        }
        Err(_) => "err".into(),
    };
    format!(
        "{} {} {} {} {} | {} | {} | {} | {}",
        g.number_of_contours(),
        g.x_min(),
        g.y_min(),
        g.x_max(),
        g.y_max(),
        join_i(&endpts),
        hex(g.instructions()),
        join_i(&pts),
        fast
    )
}

fn show_rcomp(c: &rglyf::Component) -> String {
    let a = match c.anchor {
        rglyf::Anchor::Offset { x, y } => format!("o {x} {y}"),
        rglyf::Anchor::Point { base, component } => format!("p {base} {component}"),
    };
    format!(
        "{} {} {} {} {} {} {}",
        c.flags.bits(),
        c.glyph.to_u16(),
        a,
        c.transform.xx.to_bits(),
        c.transform.yx.to_bits(),
        c.transform.xy.to_bits(),
        c.transform.yy.to_bits()
    )
}

fn show_composite(g: &rglyf::CompositeGlyph) -> String {
    let comps: Vec<String> = g.components().map(|c| show_rcomp(&c)).collect();
    let (count, instr) = g.count_and_instructions();
    format!(
        "{} {} {} {} | {} | {} | {}",
        g.x_min(),
        g.y_min(),
        g.x_max(),
        g.y_max(),
        if comps.is_empty() { "-".to_string() } else { comps.join(" ; ") },
        count,
        match instr {
            None => "none".to_string(),
            Some(b) => hex(b),
        }
    )
}

fn show_glyph_read(bytes: &[u8]) -> String {
    match catch(|| match rglyf::Glyph::read(FontData::new(bytes)) {
        Err(_) => "err".to_string(),
        Ok(rglyf::Glyph::Simple(g)) => format!("S {}", show_simple(&g)),
        Ok(rglyf::Glyph::Composite(g)) => format!("C {}", show_composite(&g)),
    }) {
        Ok(s) => s,
        Err(_) => "trap".into(),
    }
}

/// write-fonts `SimpleGlyph::from_table_ref` (FromObjRef) on arbitrary simple-glyph bytes
fn show_owned(bytes: &[u8]) -> String {
    match catch(|| match rglyf::Glyph::read(FontData::new(bytes)) {
        Err(_) => "err".to_string(),
        Ok(rglyf::Glyph::Composite(_)) => "n/a".to_string(),
        Ok(rglyf::Glyph::Simple(g)) => {
            let o = SimpleGlyph::from_table_ref(&g);
            let lens: Vec<usize> = o.contours.iter().map(|c| c.len()).collect();
            let pts: Vec<i32> = o
                .contours
                .iter()
                .flat_map(|c| c.iter())
                .flat_map(|p| [p.x as i32, p.y as i32, p.on_curve as i32])
                .collect();
            format!("{} | {}", join_i(&lens), join_i(&pts))
        }
    }) {
        Ok(s) => s,
        Err(_) => "trap".into(),
    }
}

// ---------------------------------------------------------------- canonical shortest length

fn min_coord_bytes(d: i32) -> usize {
    if d == 0 { 0 } else if d.abs() <= 255 { 1 } else { 2 }
}

/// canonical flag of a point: on-curve bit + the coordinate classes (0 / short± / long)
fn canon_flag(on: bool, dx: i32, dy: i32) -> u8 {
    fn cls(d: i32) -> u8 {
        if d == 0 { 0 } else if (-255..0).contains(&d) { 1 } else if (1..=255).contains(&d) { 2 } else { 3 }
    }
    (on as u8) | cls(dx) << 1 | cls(dy) << 3
}

/// minimum number of bytes of a run-length coding (1 byte = 1 flag, 2 bytes = up to 256 flags)
fn min_rle_len(flags: &[u8]) -> usize {
    let mut total = 0;
    let mut i = 0;
    while i < flags.len() {
        let mut j = i;
        while j < flags.len() && flags[j] == flags[i] {
            j += 1;
        }
        let l = j - i;
        total += 2 * (l / 256) + (l % 256).min(2);
        i = j;
    }
    total
}

fn canonical_len(g: &SG) -> usize {
    let pts: Vec<(i16, i16, bool)> = g.contours.iter().flatten().copied().collect();
    let (mut lx, mut ly) = (0i32, 0i32);
    let mut flags = vec![];
    let mut coords = 0;
    for p in &pts {
        let (dx, dy) = (p.0 as i32 - lx, p.1 as i32 - ly);
        lx = p.0 as i32;
        ly = p.1 as i32;
        flags.push(canon_flag(p.2, dx, dy));
        coords += min_coord_bytes(dx) + min_coord_bytes(dy);
    }
    let n = 10 + 2 * g.contours.len() + 2 + g.instr.len() + min_rle_len(&flags) + coords;
    n + (n & 1)
}

// ---------------------------------------------------------------- cases

fn simple_case(s: &mut Session, g: &SG, group: &'static str) -> Option<Vec<u8>> {
    let real = Glyph::Simple(sg_real(g));
    let (out, bytes) = write_outcome(&real);
    s.count(&format!("sg.write:{}", if bytes.is_some() { "ok" } else { out.as_str() }));
    s.case(group, format!("g.write S {}", sg_spec(g)), out);
    let bytes = bytes?;
    if g.contours.is_empty() {
        s.oracle("empty-simple-writes-nothing", bytes.is_empty(), || sg_spec(g), || hex(&bytes));
        return Some(bytes);
    }
    // read back: correspondence of the reader on the writer's bytes
    s.case("g.read", format!("g.read {}", hex(&bytes)), show_glyph_read(&bytes));
    s.case("g.owned", format!("g.owned {}", hex(&bytes)), show_owned(&bytes));
    // oracle: round trip on the real code
    let pts: Vec<(i16, i16, bool)> = g.contours.iter().flatten().copied().collect();
    // a glyph with more than 65535 points cannot be represented (u16 end points, maxp.maxPoints):
    // it must not be accepted (before the fix: commit the end points wrapped silently)
    s.oracle(
        "more-than-65535-points-rejected",
        pts.len() <= 65535,
        || format!("{} points in {} contours", pts.len(), g.contours.len()),
        || format!("accepted, wrote {} bytes", bytes.len()),
    );
    if pts.len() <= 65535 {
        let ok = catch(|| {
            let r = match rglyf::SimpleGlyph::read(FontData::new(&bytes)) {
                Ok(r) => r,
                Err(e) => return Err(format!("read error {e}")),
            };
            let got: Vec<(i16, i16, bool)> = r.points().map(|p| (p.x, p.y, p.on_curve)).collect();
            if got != pts {
                let i = got.iter().zip(pts.iter()).position(|(a, b)| a != b);
                return Err(format!("points differ: got {} want {} first diff {:?}", got.len(), pts.len(), i));
            }
            let mut cur = 0usize;
            let ends: Vec<u16> = g.contours.iter().map(|c| { cur += c.len(); (cur - 1) as u16 }).collect();
            let rends: Vec<u16> = r.end_pts_of_contours().iter().map(|x| x.get()).collect();
            if ends != rends {
                return Err(format!("end points {rends:?} want {ends:?}"));
            }
            if [r.x_min(), r.y_min(), r.x_max(), r.y_max()] != g.bbox {
                return Err("bbox".into());
            }
            if r.instructions() != g.instr.as_slice() {
                return Err("instructions".into());
            }
            if r.number_of_contours() as usize != g.contours.len() {
                return Err("contour count".into());
            }
            let n = r.num_points();
            let mut fp = vec![read_fonts::types::Point::<i32>::default(); n];
            let mut ff = vec![rglyf::PointFlags::default(); n];
            if let Err(e) = r.read_points_fast(&mut fp, &mut ff) {
                return Err(format!("read_points_fast {e}"));
            }
            let fast: Vec<(i16, i16, bool)> =
                fp.iter().zip(ff.iter()).map(|(p, f)| (p.x as i16, p.y as i16, f.is_on_curve())).collect();
            if fast != pts || fp.iter().any(|p| p.x as i16 as i32 != p.x || p.y as i16 as i32 != p.y) {
                return Err("read_points_fast differs".into());
            }
            let owned = SimpleGlyph::from_table_ref(&r);
            if owned != sg_real(g) {
                return Err("to_owned differs".into());
            }
            Ok(())
        });
        let ok = match ok {
            Ok(r) => r,
            Err(p) => Err(format!("panic: {p}")),
        };
        s.oracle("simple-roundtrip", ok.is_ok(), || format!("S {}", sg_spec(g)), || ok.clone().unwrap_err());
        let want = canonical_len(g);
        s.oracle(
            "simple-length<=canonical-shortest",
            bytes.len() <= want,
            || format!("S {}", sg_spec(g)),
            || format!("len {} canonical {}", bytes.len(), want),
        );
        s.oracle(
            "simple-length>=canonical-shortest",
            bytes.len() >= want,
            || format!("S {}", sg_spec(g)),
            || format!("len {} canonical {} (shorter than the canonical even-padded size: missing padding, or the oracle's own bound is wrong)", bytes.len(), want),
        );
    }
    Some(bytes)
}

fn composite_case(s: &mut Session, g: &CG) -> Option<Vec<u8>> {
    let real = match cg_real(g) {
        Some(r) => r,
        None => {
            // empty composite: only reachable through try_from_iter, which rejects it
            let r = CompositeGlyph::try_from_iter(std::iter::empty::<(Component, Bbox)>());
            s.oracle("empty-composite-rejected", r.is_err(), || cg_spec(g), || "accepted".into());
            return None;
        }
    };
    let (out, bytes) = write_outcome(&Glyph::Composite(real.clone()));
    s.count(&format!("cg.write:{}", if bytes.is_some() { "ok" } else { out.as_str() }));
    s.case("cg.write", format!("g.write C {}", cg_spec(g)), out);
    let bytes = bytes?;
    s.case("g.read", format!("g.read {}", hex(&bytes)), show_glyph_read(&bytes));
    let ok = catch(|| {
        let r = rglyf::CompositeGlyph::read(FontData::new(&bytes)).map_err(|e| format!("read {e}"))?;
        if [r.x_min(), r.y_min(), r.x_max(), r.y_max()] != g.bbox {
            return Err("bbox".to_string());
        }
        let comps: Vec<rglyf::Component> = r.components().collect();
        if comps.len() != g.comps.len() {
            return Err(format!("component count {} want {}", comps.len(), g.comps.len()));
        }
        for (i, (rc, c)) in comps.iter().zip(g.comps.iter()).enumerate() {
            let want = comp_real(c);
            if rc.glyph != want.glyph || rc.anchor != want.anchor || rc.transform != want.transform {
                return Err(format!("component {i}: {rc:?} want {want:?}"));
            }
            if ComponentFlags::from(rc.flags) != want.flags {
                return Err(format!("component {i} flags {:?}", rc.flags));
            }
            let more = rc.flags.bits() & 0x20 != 0;
            if more != (i + 1 < g.comps.len()) {
                return Err(format!("component {i} MORE_COMPONENTS"));
            }
        }
        let (count, instr) = r.count_and_instructions();
        if count != g.comps.len() {
            return Err("count".into());
        }
        if instr.unwrap_or_default() != g.instr.as_slice() {
            return Err("instructions".into());
        }
        let owned = CompositeGlyph::from_table_ref(&r);
        if owned != real {
            return Err("to_owned differs".into());
        }
        Ok(())
    });
    let ok = match ok {
        Ok(r) => r,
        Err(p) => Err(format!("panic: {p}")),
    };
    s.oracle("composite-roundtrip", ok.is_ok(), || format!("C {}", cg_spec(g)), || ok.clone().unwrap_err());
    Some(bytes)
}

// ---------------------------------------------------------------- generators

const DELTAS: [i32; 33] = [
    0, 0, 0, 1, -1, 2, -2, 100, -100, 254, -254, 255, -255, 256, -256, 257, -257, 300, -300, 1000,
    -1000, 32767, -32767, -32768, 32768, 40000, -40000, 65535, -65535, 127, -128, 128, -129,
];

fn gen_delta(rng: &mut Rng) -> i32 {
    match rng.below(10) {
        0..=5 => *rng.pick(&DELTAS),
        6..=7 => rng.range(-300, 300) as i32,
        _ => rng.range(-66000, 66000) as i32,
    }
}

/// next coordinate: apply a delta from the boundary set if it stays in i16, otherwise (rarely)
/// jump to an extreme so that the i16 delta itself overflows.
fn next_coord(rng: &mut Rng, cur: i16, allow_overflow: bool) -> i16 {
    for _ in 0..8 {
        let d = gen_delta(rng);
        let v = cur as i32 + d;
        if v >= i16::MIN as i32 && v <= i16::MAX as i32 {
            return v as i16;
        }
        if allow_overflow && rng.chance(1, 6) {
            return if cur < 0 { i16::MAX } else { i16::MIN };
        }
    }
    cur
}

fn split_contours(rng: &mut Rng, pts: Vec<(i16, i16, bool)>, allow_empty: bool) -> Vec<Vec<(i16, i16, bool)>> {
    let mut out = vec![];
    let mut cur = vec![];
    let p_split = *rng.pick(&[0u64, 1, 3, 10]);
    for p in pts {
        cur.push(p);
        if rng.below(20) < p_split {
            out.push(std::mem::take(&mut cur));
            if allow_empty && rng.chance(1, 12) {
                out.push(vec![]);
            }
        }
    }
    if !cur.is_empty() || out.is_empty() {
        out.push(cur);
    }
    if allow_empty && rng.chance(1, 25) {
        out.insert(0, vec![]);
    }
    out
}

fn gen_instr(rng: &mut Rng) -> Vec<u8> {
    let n = match rng.below(8) {
        0..=3 => 0,
        4 => 1,
        5 => 2,
        6 => rng.below(20) as usize,
        _ => rng.below(300) as usize,
    };
    rng.bytes(n)
}

fn gen_bbox(rng: &mut Rng) -> [i16; 4] {
    let mut b = [0i16; 4];
    for v in b.iter_mut() {
        *v = *rng.pick(&[0i16, 1, -1, 255, 256, -256, 32767, -32768, 1000, -1000]);
        if rng.chance(1, 3) {
            *v = rng.range(-32768, 32767) as i16;
        }
    }
    b
}

fn gen_simple_random(rng: &mut Rng, max_pts: u64) -> SG {
    let n = 1 + rng.below(max_pts) as usize;
    let allow_overflow = rng.chance(1, 10);
    let (mut x, mut y) = (0i16, 0i16);
    if rng.chance(1, 4) {
        x = rng.range(-32768, 32767) as i16;
        y = rng.range(-32768, 32767) as i16;
    }
    let mut pts = vec![];
    let on_mode = rng.below(3);
    for i in 0..n {
        if i > 0 || rng.chance(1, 2) {
            x = next_coord(rng, x, allow_overflow);
            y = next_coord(rng, y, allow_overflow);
        }
        let on = match on_mode {
            0 => true,
            1 => rng.chance(1, 2),
            _ => rng.chance(4, 5),
        };
        pts.push((x, y, on));
    }
    SG { bbox: gen_bbox(rng), instr: gen_instr(rng), contours: split_contours(rng, pts, true) }
}

const RUN_LENS: [usize; 22] = [
    1, 1, 2, 2, 3, 4, 100, 254, 255, 256, 257, 258, 259, 300, 510, 511, 512, 513, 514, 600, 768, 769,
];

/// one coordinate's step for a class (0 same, 1 short-, 2 short+, 3 long), keeping |value| small
fn class_step(rng: &mut Rng, cls: u64, cur: i16, i: usize) -> i16 {
    let d: i32 = match cls {
        0 => 0,
        1 => -(*rng.pick(&[1i32, 1, 1, 2, 255])),
        2 => *rng.pick(&[1i32, 1, 1, 2, 255]),
        _ => {
            let m = *rng.pick(&[256i32, 257, 300, 1000]);
            if i % 2 == 0 { m } else { -m }
        }
    };
    let v = cur as i32 + d;
    if v < i16::MIN as i32 + 2000 || v > i16::MAX as i32 - 2000 {
        // stay in the same class while returning towards zero is impossible for classes 1/2;
        // give up the class for this step
        return (cur as i32 - d.signum() * 1).clamp(i16::MIN as i32, i16::MAX as i32) as i16;
    }
    v as i16
}

/// glyph made of flag runs of chosen lengths
fn gen_simple_runs(rng: &mut Rng, nruns: usize, lens: &[usize]) -> SG {
    let (mut x, mut y) = (0i16, 0i16);
    let mut pts = vec![];
    for _ in 0..nruns {
        let len = *rng.pick(lens);
        let on = rng.chance(2, 3);
        let (cx, cy) = (rng.below(4), rng.below(4));
        for i in 0..len {
            x = class_step(rng, cx, x, i);
            y = class_step(rng, cy, y, i);
            pts.push((x, y, on));
        }
    }
    SG { bbox: gen_bbox(rng), instr: gen_instr(rng), contours: split_contours(rng, pts, false) }
}

const ANCH_I: [i16; 14] = [0, 1, -1, 127, 128, -128, -129, 255, 256, 1000, -1000, 32767, -32768, 5];
const ANCH_U: [u16; 8] = [0, 1, 254, 255, 256, 257, 65535, 1000];
const TR: [i16; 10] = [0x4000, 0, 1, -1, 0x2000, -0x4000, 0x7fff, -0x8000, 0x4001, 0x3fff];

fn gen_comp(rng: &mut Rng) -> Comp {
    let anchor = if rng.chance(2, 3) {
        An::Off(*rng.pick(&ANCH_I), *rng.pick(&ANCH_I))
    } else {
        An::Pt(*rng.pick(&ANCH_U), *rng.pick(&ANCH_U))
    };
    let tr = match rng.below(6) {
        0 | 1 => [0x4000, 0, 0, 0x4000],
        2 => {
            let v = *rng.pick(&TR);
            [v, 0, 0, v]
        }
        3 => [*rng.pick(&TR), 0, 0, *rng.pick(&TR)],
        4 => [*rng.pick(&TR), *rng.pick(&TR), *rng.pick(&TR), *rng.pick(&TR)],
        _ => [rng.range(-32768, 32767) as i16, *rng.pick(&[0i16, 0, 5]), *rng.pick(&[0i16, 0, -7]), rng.range(-32768, 32767) as i16],
    };
    Comp {
        glyph: *rng.pick(&[0u16, 1, 2, 255, 256, 65535, 1234]),
        anchor,
        uflags: rng.below(32) as u8,
        tr,
    }
}

fn gen_composite(rng: &mut Rng) -> CG {
    let n = *rng.pick(&[1usize, 1, 2, 2, 3, 5, 9]);
    let instr = if rng.chance(1, 3) { let n = 1 + rng.below(12) as usize; rng.bytes(n) } else { vec![] };
    CG { bbox: gen_bbox(rng), comps: (0..n).map(|_| gen_comp(rng)).collect(), instr }
}

// ---------------------------------------------------------------- builder / loca

fn build_case(s: &mut Session, glyphs: &[G], big: bool) {
    let reals: Option<Vec<Glyph>> = glyphs.iter().map(g_real).collect();
    let Some(reals) = reals else { return };
    let built = catch(|| {
        let mut b = GlyfLocaBuilder::new();
        for g in &reals {
            if b.add_glyph(g).is_err() {
                return None;
            }
        }
        let (glyf, loca, fmt) = b.build();
        let glyf_bytes = write_fonts::dump_table(&glyf).ok()?;
        let loca_bytes = write_fonts::dump_table(&loca).ok()?;
        Some((glyf_bytes, loca_bytes, fmt))
    });
    let spec: Vec<String> = glyphs.iter().map(g_spec).collect();
    let req = format!("build {}", spec.join(" "));
    let built = match built {
        Ok(Some(b)) => b,
        _ => {
            s.count("build:fail");
            s.case("build", req, "fail".into());
            return;
        }
    };
    let (glyf_bytes, loca_bytes, fmt) = built;
    let is_long = fmt == LocaFormat::Long;
    s.count(if is_long { "build:long" } else { "build:short" });
    s.case(
        "build",
        req,
        format!("{} {} {}", if is_long { "L" } else { "S" }, hex(&loca_bytes), hex(&glyf_bytes)),
    );
    // oracles on the real tables
    let want_long = glyf_bytes.len() >= 0x20000;
    s.oracle("loca-short-iff-glyf<0x20000", is_long == want_long, || format!("glyf len {}", glyf_bytes.len()), || format!("{fmt:?}"));
    let parsed = (
        rglyf::Glyf::read(FontData::new(&glyf_bytes)),
        read_fonts::tables::loca::Loca::read(FontData::new(&loca_bytes), is_long),
    );
    let (rglyf_t, rloca) = match parsed {
        (Ok(g), Ok(l)) => (g, l),
        _ => {
            s.oracle("built-tables-parse", false, || format!("{} glyphs, loca {}", glyphs.len(), hex(&loca_bytes)), || "Glyf/Loca::read failed".into());
            return;
        }
    };
    s.oracle("loca-len", rloca.len() == glyphs.len(), || format!("{} glyphs", glyphs.len()), || format!("{}", rloca.len()));
    let base = glyf_bytes.as_ptr() as usize;
    let mut pos = 0usize;
    let n = glyphs.len();
    let step = if big { (n / 6).max(1) } else { 1 };
    for (i, real) in reals.iter().enumerate() {
        let gid = GlyphId::new(i as u32);
        let got = catch(|| rloca.get_glyf(gid, &rglyf_t));
        let own = write_fonts::dump_table(real).unwrap_or_default();
        let ok = match &got {
            Ok(Ok(None)) => own.is_empty(),
            Ok(Ok(Some(g))) => {
                let d = g.offset_data();
                d.as_bytes() == own.as_slice()
                    && d.as_bytes().as_ptr() as usize - base == pos
                    && Glyph::from_table_ref(g) == *real
            }
            _ => false,
        };
        s.oracle(
            "get_glyf(i)=glyph-i",
            ok,
            || format!("glyph {i} of build {}", spec.join(" ").chars().take(2000).collect::<String>()),
            || format!("{:?}", got.as_ref().map(|r| r.as_ref().map(|o| o.is_some()).map_err(|e| e.to_string()))),
        );
        if i % step == 0 || i + 1 == n {
            loca_get_case(s, is_long, &loca_bytes, &glyf_bytes, i as u32);
        }
        pos += own.len();
    }
    s.oracle("glyf=concat", pos == glyf_bytes.len(), || format!("{} glyphs", n), || format!("{pos} vs {}", glyf_bytes.len()));
    loca_get_case(s, is_long, &loca_bytes, &glyf_bytes, n as u32);
    loca_get_case(s, is_long, &loca_bytes, &glyf_bytes, n as u32 + 1);
}

fn loca_get_case(s: &mut Session, is_long: bool, loca: &[u8], glyf: &[u8], gid: u32) {
    let resp = match catch(|| {
        let rl = match read_fonts::tables::loca::Loca::read(FontData::new(loca), is_long) {
            Ok(l) => l,
            Err(_) => return "err".to_string(),
        };
        let rg = rglyf::Glyf::read(FontData::new(glyf)).unwrap();
        match rl.get_glyf(GlyphId::new(gid), &rg) {
            Err(_) => "err".to_string(),
            Ok(None) => "none".to_string(),
            Ok(Some(g)) => {
                let d = g.offset_data();
                format!("{} {}", d.as_bytes().as_ptr() as usize - glyf.as_ptr() as usize, d.len())
            }
        }
    }) {
        Ok(r) => r,
        Err(_) => "trap".into(),
    };
    s.count(&format!("loca.get:{}", if resp.contains(' ') { "some" } else { resp.as_str() }));
    s.case(
        "loca.get",
        format!("loca.get {} {} {} {}", is_long as u8, hex(loca), hex(glyf), gid),
        resp,
    );
}

fn loca_write_case(s: &mut Session, offs: &[u32]) {
    let r = catch(|| {
        let l = Loca::new(offs.to_vec());
        let f = l.format();
        (f, write_fonts::dump_table(&l).unwrap())
    });
    let resp = match &r {
        Ok((f, b)) => format!("{} {}", if *f == LocaFormat::Long { "L" } else { "S" }, hex(b)),
        Err(_) => "trap".into(),
    };
    s.case("loca.write", format!("loca.write {}", join(offs)), resp);
    if let Ok((f, b)) = &r {
        let even = offs.iter().all(|o| o % 2 == 0);
        let small = offs.last().copied().unwrap_or(0) < 0x20000;
        s.oracle("loca-short-iff-even-and-small", (*f == LocaFormat::Short) == (even && small), || join(offs), || format!("{f:?}"));
        // when offsets are monotone the table reads back exactly
        if offs.windows(2).all(|w| w[0] <= w[1]) {
            let back: Vec<u32> = catch(|| {
                let rl = read_fonts::tables::loca::Loca::read(FontData::new(b), *f == LocaFormat::Long).ok()?;
                (0..offs.len()).map(|i| rl.get_raw(i)).collect::<Option<Vec<u32>>>()
            })
            .ok()
            .flatten()
            .unwrap_or_else(|| vec![u32::MAX]);
            s.oracle("loca-raw-roundtrip", back == offs, || join(offs), || join(&back));
        }
    }
}

fn simple_of_size(size: usize) -> SG {
    // one on-curve point at the origin: 10 + 2 + 2 + L + 1 flag byte, padded to even
    let size = (size & !1usize).max(16);
    let l = size - 15;
    SG { bbox: [0, 0, 0, 0], instr: vec![0x4f; l], contours: vec![vec![(0, 0, true)]] }
}

// ---------------------------------------------------------------- bezpath -> font -> draw

#[derive(Clone, Copy, Debug, PartialEq, PartialOrd)]
enum Seg {
    L([f64; 4]),
    Q([f64; 6]),
}

#[derive(Default)]
struct SegPen {
    contours: Vec<Vec<Seg>>,
    cur: Vec<Seg>,
    start: (f64, f64),
    last: (f64, f64),
    open: bool,
    cubic: bool,
}

impl SegPen {
    fn flush(&mut self) {
        if self.open {
            if self.last != self.start {
                let (a, b) = (self.last, self.start);
                self.cur.push(Seg::L([a.0, a.1, b.0, b.1]));
            }
            self.contours.push(std::mem::take(&mut self.cur));
            self.open = false;
        }
    }
    fn mv(&mut self, x: f64, y: f64) {
        self.flush();
        self.open = true;
        self.start = (x, y);
        self.last = (x, y);
    }
    fn ln(&mut self, x: f64, y: f64) {
        if (x, y) != self.last {
            self.cur.push(Seg::L([self.last.0, self.last.1, x, y]));
        }
        self.last = (x, y);
    }
    fn qd(&mut self, cx: f64, cy: f64, x: f64, y: f64) {
        self.cur.push(Seg::Q([self.last.0, self.last.1, cx, cy, x, y]));
        self.last = (x, y);
    }
    /// contours as cyclic segment lists in canonical rotation
    fn canonical(mut self) -> Vec<Vec<Seg>> {
        self.flush();
        self.contours
            .into_iter()
            .map(|c| {
                if c.is_empty() {
                    return c;
                }
                let mut best = c.clone();
                for r in 1..c.len() {
                    let mut rot = c[r..].to_vec();
                    rot.extend_from_slice(&c[..r]);
                    if rot.partial_cmp(&best) == Some(std::cmp::Ordering::Less) {
                        best = rot;
                    }
                }
                best
            })
            .collect()
    }
}

impl skrifa::outline::OutlinePen for SegPen {
    fn move_to(&mut self, x: f32, y: f32) {
        self.mv(x as f64, y as f64)
    }
    fn line_to(&mut self, x: f32, y: f32) {
        self.ln(x as f64, y as f64)
    }
    fn quad_to(&mut self, cx0: f32, cy0: f32, x: f32, y: f32) {
        self.qd(cx0 as f64, cy0 as f64, x as f64, y as f64)
    }
    fn curve_to(&mut self, _: f32, _: f32, _: f32, _: f32, _: f32, _: f32) {
        self.cubic = true;
    }
    fn close(&mut self) {
        self.flush()
    }
}

fn path_segs(path: &kurbo::BezPath) -> Vec<Vec<Seg>> {
    let mut pen = SegPen::default();
    for el in path.elements() {
        match *el {
            kurbo::PathEl::MoveTo(p) => pen.mv(p.x, p.y),
            kurbo::PathEl::LineTo(p) => pen.ln(p.x, p.y),
            kurbo::PathEl::QuadTo(c, p) => pen.qd(c.x, c.y, p.x, p.y),
            kurbo::PathEl::CurveTo(..) => pen.cubic = true,
            kurbo::PathEl::ClosePath => pen.flush(),
        }
    }
    pen.canonical()
}

fn gen_path(rng: &mut Rng) -> kurbo::BezPath {
    let mut path = kurbo::BezPath::new();
    let ncont = 1 + rng.below(3);
    let grid = *rng.pick(&[4i64, 10, 1000, 16000]);
    for _ in 0..ncont {
        let pt = |rng: &mut Rng| (rng.range(-grid, grid) as f64, rng.range(-grid, grid) as f64);
        let start = pt(rng);
        path.move_to(start);
        // sometimes a lone move point (single-point contour)
        let nseg = if rng.chance(1, 12) { 0 } else { 1 + rng.below(7) };
        let mut last = start;
        let mut last_ctrl: Option<(f64, f64)> = None;
        for _ in 0..nseg {
            if rng.chance(1, 2) {
                let p = pt(rng);
                path.line_to(p);
                last = p;
                last_ctrl = None;
            } else {
                // often make the joining on-curve point the exact midpoint of the neighbouring
                // off-curve points so that it is elided by the builder
                let c = match last_ctrl {
                    Some(pc) if rng.chance(2, 3) => (2.0 * last.0 - pc.0, 2.0 * last.1 - pc.1),
                    _ => pt(rng),
                };
                let p = pt(rng);
                path.quad_to(c, p);
                last = p;
                last_ctrl = Some(c);
            }
        }
        match rng.below(3) {
            0 => path.close_path(),
            1 => {
                path.line_to(start);
                path.close_path()
            }
            _ => {
                // smooth closure through the start point: last ctrl, start, first ctrl collinear
                path.close_path()
            }
        }
    }
    path
}

fn in_i16_path(path: &kurbo::BezPath) -> bool {
    path.elements().iter().all(|el| {
        let ok = |p: &kurbo::Point| p.x.abs() <= 16383.0 && p.y.abs() <= 16383.0;
        match el {
            kurbo::PathEl::MoveTo(p) | kurbo::PathEl::LineTo(p) => ok(p),
            kurbo::PathEl::QuadTo(a, b) => ok(a) && ok(b),
            kurbo::PathEl::CurveTo(a, b, c) => ok(a) && ok(b) && ok(c),
            kurbo::PathEl::ClosePath => true,
        }
    })
}

fn path_tokens(path: &kurbo::BezPath) -> String {
    let mut t: Vec<String> = vec![];
    for el in path.elements() {
        match *el {
            kurbo::PathEl::MoveTo(p) => t.push(format!("M {} {}", p.x as i64, p.y as i64)),
            kurbo::PathEl::LineTo(p) => t.push(format!("L {} {}", p.x as i64, p.y as i64)),
            kurbo::PathEl::QuadTo(c, p) => t.push(format!("Q {} {} {} {}", c.x as i64, c.y as i64, p.x as i64, p.y as i64)),
            kurbo::PathEl::CurveTo(..) => t.push("C".into()),
            kurbo::PathEl::ClosePath => t.push("Z".into()),
        }
    }
    if t.is_empty() { "-".into() } else { t.join(" ") }
}

/// correspondence of `SimpleGlyph::from_bezpath` on integer-coordinate paths (incl. malformed ones)
fn path_case(s: &mut Session, path: &kurbo::BezPath) {
    let resp = match catch(|| SimpleGlyph::from_bezpath(path)) {
        Err(_) => "trap".to_string(),
        Ok(Err(e)) => match e {
            write_fonts::tables::glyf::MalformedPath::HasCubic => "err:HasCubic".into(),
            write_fonts::tables::glyf::MalformedPath::MissingMove => "err:MissingMove".into(),
            other => format!("err:{other:?}"),
        },
        Ok(Ok(g)) => {
            let lens: Vec<usize> = g.contours.iter().map(|c| c.len()).collect();
            let pts: Vec<i32> = g
                .contours
                .iter()
                .flat_map(|c| c.iter())
                .flat_map(|p| [p.x as i32, p.y as i32, p.on_curve as i32])
                .collect();
            format!(
                "{} {} {} {} | {} | {}",
                g.bbox.x_min, g.bbox.y_min, g.bbox.x_max, g.bbox.y_max, join_i(&lens), join_i(&pts)
            )
        }
    };
    s.count(&format!("path.glyph:{}", if resp.contains('|') { "ok" } else { resp.as_str() }));
    s.case("path.glyph", format!("path.glyph {}", path_tokens(path)), resp);
}

/// arbitrary element soup over a tiny grid: missing moves, cubics, several closes, lines after a
/// close, single-point contours, duplicate end points, midpoints everywhere
fn gen_el_soup(rng: &mut Rng) -> kurbo::BezPath {
    let mut path = kurbo::BezPath::new();
    let n = rng.below(9);
    let g = *rng.pick(&[1i64, 2, 2, 3, 100]);
    let pt = |rng: &mut Rng| (rng.range(-g, g) as f64, rng.range(-g, g) as f64);
    let mut els: Vec<kurbo::PathEl> = vec![];
    if rng.chance(7, 8) {
        els.push(kurbo::PathEl::MoveTo(pt(rng).into()));
    }
    for _ in 0..n {
        let e = match rng.below(12) {
            0 => kurbo::PathEl::MoveTo(pt(rng).into()),
            1..=4 => kurbo::PathEl::LineTo(pt(rng).into()),
            5..=8 => kurbo::PathEl::QuadTo(pt(rng).into(), pt(rng).into()),
            9 | 10 => kurbo::PathEl::ClosePath,
            _ => {
                if rng.chance(1, 4) {
                    kurbo::PathEl::CurveTo(pt(rng).into(), pt(rng).into(), pt(rng).into())
                } else {
                    kurbo::PathEl::ClosePath
                }
            }
        };
        els.push(e);
    }
    // kurbo debug-asserts that a path begins with MoveTo: start with a placeholder MoveTo and
    // overwrite it through elements_mut
    let first_is_move = matches!(els.first(), Some(kurbo::PathEl::MoveTo(_)));
    if !first_is_move && !els.is_empty() {
        path.push(kurbo::PathEl::MoveTo((0.0, 0.0).into()));
        for e in &els[1..] {
            path.push(*e);
        }
        path.elements_mut()[0] = els[0];
    } else {
        for e in els {
            path.push(e);
        }
    }
    path
}

/// pen that records every call with coordinates in 26.6 units (unscaled draws are exact)
#[derive(Default)]
struct CmdPen(Vec<String>);
impl skrifa::outline::OutlinePen for CmdPen {
    fn move_to(&mut self, x: f32, y: f32) {
        self.0.push(format!("M {} {}", (x as f64 * 64.0) as i64, (y as f64 * 64.0) as i64));
    }
    fn line_to(&mut self, x: f32, y: f32) {
        self.0.push(format!("L {} {}", (x as f64 * 64.0) as i64, (y as f64 * 64.0) as i64));
    }
    fn quad_to(&mut self, a: f32, b: f32, x: f32, y: f32) {
        self.0.push(format!(
            "Q {} {} {} {}",
            (a as f64 * 64.0) as i64, (b as f64 * 64.0) as i64, (x as f64 * 64.0) as i64, (y as f64 * 64.0) as i64
        ));
    }
    fn curve_to(&mut self, _: f32, _: f32, _: f32, _: f32, _: f32, _: f32) {
        self.0.push("C".into());
    }
    fn close(&mut self) {
        self.0.push("Z".into());
    }
}

/// a two-glyph font (empty + `glyph`) assembled with FontBuilder
fn font_with(glyph: &SimpleGlyph) -> Result<Vec<u8>, String> {
    use write_fonts::tables::{head::Head, hhea::Hhea, hmtx::Hmtx, hmtx::LongMetric, maxp::Maxp};
    let mut b = GlyfLocaBuilder::new();
    b.add_glyph(&Glyph::Empty).map_err(|e| e.to_string())?;
    b.add_glyph(glyph).map_err(|e| e.to_string())?;
    let (glyf, loca, fmt) = b.build();
    let head = Head { units_per_em: 1000, index_to_loc_format: fmt as i16, ..Default::default() };
    let maxp = Maxp::new(2);
    let hhea = Hhea { number_of_h_metrics: 2, ..Default::default() };
    let hmtx = Hmtx::new(vec![LongMetric::new(500, 0), LongMetric::new(500, glyph.bbox.x_min)], vec![]);
    let mut fb = write_fonts::FontBuilder::new();
    fb.add_table(&head).map_err(|e| e.to_string())?;
    fb.add_table(&maxp).map_err(|e| e.to_string())?;
    fb.add_table(&hhea).map_err(|e| e.to_string())?;
    fb.add_table(&hmtx).map_err(|e| e.to_string())?;
    fb.add_table(&glyf).map_err(|e| e.to_string())?;
    fb.add_table(&loca).map_err(|e| e.to_string())?;
    Ok(fb.build())
}

/// correspondence of the whole read + unscaled draw pipeline (skrifa) with `drawUnscaled`
fn draw_glyph_case(s: &mut Session, glyph: &SimpleGlyph, group: &'static str) {
    let Ok(Ok(bytes)) = catch(|| write_fonts::dump_table(glyph)) else { return };
    if bytes.is_empty() {
        return;
    }
    let resp = match catch(|| -> Result<String, String> {
        let data = font_with(glyph)?;
        let font = FontRef::new(&data).map_err(|e| e.to_string())?;
        let og = font.outline_glyphs().get(GlyphId::new(1)).ok_or("no outline")?;
        let mut pen = CmdPen::default();
        let r = og.draw(
            skrifa::outline::DrawSettings::unhinted(skrifa::instance::Size::unscaled(), skrifa::instance::LocationRef::default()),
            &mut pen,
        );
        let tail = if r.is_ok() { "ok" } else { "err" };
        Ok(if pen.0.is_empty() { tail.to_string() } else { format!("{} {}", pen.0.join(" "), tail) })
    }) {
        Ok(Ok(r)) => r,
        Ok(Err(e)) => format!("fail:{e}"),
        Err(_) => "trap".into(),
    };
    s.count(&format!("draw:{}", if resp.ends_with("ok") { "ok" } else if resp.ends_with("err") { "err" } else { "other" }));
    s.case(group, format!("draw {}", hex(&bytes)), resp);
}

fn draw_case(s: &mut Session, path: &kurbo::BezPath) {
    use write_fonts::tables::{head::Head, hhea::Hhea, hmtx::Hmtx, hmtx::LongMetric, maxp::Maxp};
    let svg = path.to_svg();
    let r = catch(|| -> Result<(), String> {
        let glyph = SimpleGlyph::from_bezpath(path).map_err(|e| format!("from_bezpath {e:?}"))?;
        let mut b = GlyfLocaBuilder::new();
        b.add_glyph(&Glyph::Empty).map_err(|e| e.to_string())?;
        b.add_glyph(&glyph).map_err(|e| e.to_string())?;
        let (glyf, loca, fmt) = b.build();
        let head = Head { units_per_em: 1000, index_to_loc_format: fmt as i16, ..Default::default() };
        let maxp = Maxp::new(2);
        let hhea = Hhea { number_of_h_metrics: 2, ..Default::default() };
        let hmtx = Hmtx::new(vec![LongMetric::new(500, 0), LongMetric::new(500, glyph.bbox.x_min)], vec![]);
        let mut fb = write_fonts::FontBuilder::new();
        fb.add_table(&head).map_err(|e| e.to_string())?;
        fb.add_table(&maxp).map_err(|e| e.to_string())?;
        fb.add_table(&hhea).map_err(|e| e.to_string())?;
        fb.add_table(&hmtx).map_err(|e| e.to_string())?;
        fb.add_table(&glyf).map_err(|e| e.to_string())?;
        fb.add_table(&loca).map_err(|e| e.to_string())?;
        let data = fb.build();
        let font = FontRef::new(&data).map_err(|e| e.to_string())?;
        let og = font.outline_glyphs().get(GlyphId::new(1)).ok_or("no outline")?;
        let mut pen = SegPen::default();
        og.draw(
            skrifa::outline::DrawSettings::unhinted(skrifa::instance::Size::unscaled(), skrifa::instance::LocationRef::default()),
            &mut pen,
        )
        .map_err(|e| format!("draw {e}"))?;
        if pen.cubic {
            return Err("cubic emitted".into());
        }
        let got = pen.canonical();
        let want = path_segs(path);
        let got: Vec<_> = got.into_iter().filter(|c| !c.is_empty()).collect();
        let want: Vec<_> = want.into_iter().filter(|c| !c.is_empty()).collect();
        if got != want {
            return Err(format!("drawn {got:?} want {want:?}"));
        }
        Ok(())
    });
    let r = match r {
        Ok(r) => r,
        Err(p) => Err(format!("panic: {p}")),
    };
    s.oracle("bezpath-draws-back", r.is_ok(), || svg.clone(), || r.clone().unwrap_err());
}

// ---------------------------------------------------------------- implied on-curve joins: exact redraw

/// one coordinate of an on-curve join between control coordinates `a` and `b`: on the exact midpoint when the sum
/// is even (rarely one unit off), on one of the two grid points next to the x.5 midpoint when it is odd (floor =
/// truncation for positive sums, ceil = truncation for negative sums; rarely one further out)
fn join_coord(rng: &mut Rng, a: i64, b: i64) -> (i64, &'static str) {
    let s = a + b;
    let fl = s.div_euclid(2);
    if s.rem_euclid(2) == 0 {
        match rng.below(8) {
            0 => (fl + 1, "off1"),
            1 => (fl - 1, "off1"),
            _ => (fl, "mid"),
        }
    } else {
        let toward_zero = if s < 0 { fl + 1 } else { fl };
        match rng.below(10) {
            0..=3 => (toward_zero, "trunc"),
            4..=7 => (2 * fl + 1 - toward_zero, "away"),
            8 => (fl - 1, "off1"),
            _ => (fl + 2, "off1"),
        }
    }
}

/// A closed contour of line / quadratic segments on integer coordinates in which most on-curve points between
/// two quads (incl. the start point, between the last and the first quad) sit on or right next to the midpoint of
/// the neighbouring control points: (a) exactly on it, (b) on the truncated / rounded-up half-sum when the sum is
/// odd (both axes, one axis, negative coordinates), (c) one unit off. No zero-length lines.
fn gen_join_contour(rng: &mut Rng, s: &mut Session, path: &mut kurbo::BezPath) {
    let g = *rng.pick(&[6i64, 12, 40, 1000, 16000]);
    let pt = |rng: &mut Rng| (rng.range(-g, g), rng.range(-g, g));
    loop {
        let n = rng.range(2, 7) as usize;
        let quad: Vec<bool> = (0..n).map(|_| rng.chance(3, 4)).collect();
        // control points: the parity of the sum with the previous control point decides what the join can be
        let mut c: Vec<(i64, i64)> = vec![];
        for i in 0..n {
            let mut p = pt(rng);
            if i > 0 && quad[i] && quad[i - 1] {
                let (want_odd_x, want_odd_y) = match rng.below(8) {
                    0 | 1 => (false, false),
                    2 | 3 => (true, true),
                    4 => (true, false),
                    5 => (false, true),
                    _ => ((p.0 + c[i - 1].0) & 1 != 0, (p.1 + c[i - 1].1) & 1 != 0),
                };
                if ((p.0 + c[i - 1].0) & 1 != 0) != want_odd_x {
                    p.0 += if p.0 < g { 1 } else { -1 };
                }
                if ((p.1 + c[i - 1].1) & 1 != 0) != want_odd_y {
                    p.1 += if p.1 < g { 1 } else { -1 };
                }
            }
            c.push(p);
        }
        let mut on: Vec<(i64, i64)> = vec![];
        let mut kinds: Vec<String> = vec![];
        for i in 0..n {
            let prev = (i + n - 1) % n;
            if quad[prev] && quad[i] && rng.chance(9, 10) {
                let (x, kx) = join_coord(rng, c[prev].0, c[i].0);
                let (y, ky) = join_coord(rng, c[prev].1, c[i].1);
                on.push((x, y));
                let neg = if c[prev].0 + c[i].0 < 0 || c[prev].1 + c[i].1 < 0 { ",negative-sum" } else { "" };
                let k = match (kx, ky) {
                    ("mid", "mid") => "exact-midpoint".to_string(),
                    ("off1", _) | (_, "off1") => "off-by-one".to_string(),
                    ("mid", k) => format!("x-exact,y-half-{k}{neg}"),
                    (k, "mid") => format!("x-half-{k},y-exact{neg}"),
                    (a, b) => format!("x-half-{a},y-half-{b}{neg}"),
                };
                kinds.push(k);
            } else {
                on.push(pt(rng));
            }
        }
        let degenerate = (0..n).any(|i| !quad[i] && on[i] == on[(i + 1) % n]);
        if degenerate || on.iter().chain(c.iter()).any(|p| p.0.abs() > 16383 || p.1.abs() > 16383) {
            continue;
        }
        for k in kinds {
            s.count(&format!("join:{k}"));
        }
        let f = |p: (i64, i64)| (p.0 as f64, p.1 as f64);
        path.move_to(f(on[0]));
        for i in 0..n {
            let to = on[(i + 1) % n];
            if quad[i] {
                path.quad_to(f(c[i]), f(to));
            } else if i + 1 < n || rng.chance(1, 2) {
                path.line_to(f(to)); // (the closing line is sometimes left implicit)
            }
        }
        path.close_path();
        return;
    }
}

/// the pen calls a closed integer path must come back as (26.6 units, like `CmdPen`): its own elements, without a
/// final line back to the start point (the closing line is implicit)
fn path_cmds(path: &kurbo::BezPath) -> Vec<String> {
    let u = |v: f64| (v * 64.0) as i64;
    let mut out: Vec<String> = vec![];
    let mut start = (0i64, 0i64);
    let mut last_line_to: Option<(i64, i64)> = None;
    for el in path.elements() {
        let mut line = None;
        match *el {
            kurbo::PathEl::MoveTo(p) => {
                start = (u(p.x), u(p.y));
                out.push(format!("M {} {}", start.0, start.1));
            }
            kurbo::PathEl::LineTo(p) => {
                line = Some((u(p.x), u(p.y)));
                out.push(format!("L {} {}", u(p.x), u(p.y)));
            }
            kurbo::PathEl::QuadTo(c, p) => out.push(format!("Q {} {} {} {}", u(c.x), u(c.y), u(p.x), u(p.y))),
            kurbo::PathEl::CurveTo(..) => out.push("C".into()),
            kurbo::PathEl::ClosePath => {
                if last_line_to == Some(start) {
                    out.pop();
                }
                out.push("Z".into());
            }
        }
        last_line_to = line;
    }
    out
}

fn drop_closing_lines(cmds: Vec<String>) -> Vec<String> {
    let mut out: Vec<String> = vec![];
    let mut start = String::new();
    for c in cmds {
        if let Some(rest) = c.strip_prefix("M ") {
            start = rest.to_string();
        }
        if c == "Z" && out.last().map_or(false, |l| l.strip_prefix("L ") == Some(start.as_str())) {
            out.pop();
        }
        out.push(c);
    }
    out
}

/// Oracle on the real code alone: `from_bezpath` -> GlyfLocaBuilder / FontBuilder -> read-fonts -> skrifa unscaled
/// draw gives back the source path's move / line / quad / close sequence, command for command, coordinate for
/// coordinate. (An on-curve point may only be left out where the decoder re-creates exactly that point.)
fn exact_draw_case(s: &mut Session, path: &kurbo::BezPath) {
    let want = path_cmds(path);
    let mut kept = String::new();
    let r = catch(|| -> Result<Vec<String>, String> {
        let glyph = SimpleGlyph::from_bezpath(path).map_err(|e| format!("from_bezpath {e:?}"))?;
        kept = glyph
            .contours
            .iter()
            .map(|c| c.iter().map(|p| format!("{},{},{}", p.x, p.y, if p.on_curve { "on" } else { "off" })).collect::<Vec<_>>().join(" "))
            .collect::<Vec<_>>()
            .join(" | ");
        let data = font_with(&glyph)?;
        let font = FontRef::new(&data).map_err(|e| e.to_string())?;
        let og = font.outline_glyphs().get(GlyphId::new(1)).ok_or("no outline")?;
        let mut pen = CmdPen::default();
        og.draw(
            skrifa::outline::DrawSettings::unhinted(skrifa::instance::Size::unscaled(), skrifa::instance::LocationRef::default()),
            &mut pen,
        )
        .map_err(|e| format!("draw {e}"))?;
        Ok(drop_closing_lines(pen.0))
    });
    let r = match r {
        Ok(r) => r,
        Err(p) => Err(format!("panic: {p}")),
    };
    let ok = matches!(&r, Ok(got) if *got == want);
    s.oracle(
        "bezpath-redraws-exact-command-sequence",
        ok,
        || path_tokens(path),
        || match &r {
            Ok(got) => {
                let at = got.iter().zip(want.iter()).position(|(a, b)| a != b).unwrap_or(got.len().min(want.len()));
                format!(
                    "drawn (1/64 units) [{}] want [{}]; first difference at command {at}: drawn {:?} want {:?}; glyph points written: {kept}",
                    got.join(" "),
                    want.join(" "),
                    got.get(at),
                    want.get(at)
                )
            }
            Err(e) => e.clone(),
        },
    );
}

// ---------------------------------------------------------------- builder histories with failures in the middle

/// a composite glyph WITHOUT components (validation must reject it): only obtainable by reading the 10 header
/// bytes of a composite glyph that has no component records
fn empty_composite(bbox: [i16; 4]) -> Option<CompositeGlyph> {
    let mut bytes = vec![0xff, 0xff];
    for v in bbox {
        bytes.extend_from_slice(&v.to_be_bytes());
    }
    let rg = rglyf::CompositeGlyph::read(FontData::new(&bytes)).ok()?;
    let cg = CompositeGlyph::from_table_ref(&rg);
    (cg.components().len() == 0).then_some(cg)
}

fn g_real_any(g: &G) -> Option<Glyph> {
    match g {
        G::C(c) if c.comps.is_empty() => Some(Glyph::Composite(empty_composite(c.bbox)?)),
        _ => g_real(g),
    }
}

/// what `validate` has to reject (stated from the format, not from the implementation): more points than the u16
/// end-point indices can address, more instruction bytes than the u16 length field, a composite without components
fn must_reject(g: &G) -> Option<&'static str> {
    match g {
        G::E => None,
        G::S(sg) => {
            if sg.instr.len() > 65535 {
                Some("instructions")
            } else if sg.contours.iter().map(|c| c.len()).sum::<usize>() > 65535 {
                Some("points")
            } else {
                None
            }
        }
        G::C(c) => c.comps.is_empty().then_some("no-components"),
    }
}

/// One `add_glyph` call of a history: the glyph, how it is described in a failure report, whether it is handed to
/// the builder as the inner `SimpleGlyph` / `CompositeGlyph` (all three types implement `SomeGlyph`).
#[derive(Clone)]
struct HStep {
    g: G,
    label: String,
    direct: bool,
}

fn hstep(rng: &mut Rng, g: G, label: Option<String>) -> HStep {
    let label = label.unwrap_or_else(|| g_spec(&g));
    HStep { g, label, direct: rng.chance(1, 3) }
}

/// `n` points in `k` contours: point i = (i % 1000, i % 7, on-curve iff i % 5 != 0)
fn many_points(n: usize, k: usize) -> SG {
    let pts: Vec<(i16, i16, bool)> = (0..n).map(|i| ((i % 1000) as i16, (i % 7) as i16, i % 5 != 0)).collect();
    let per = n.div_ceil(k.max(1)).max(1);
    SG { bbox: [0, 0, 999, 6], instr: vec![], contours: pts.chunks(per).map(|c| c.to_vec()).collect() }
}

/// an invalid glyph of every kind validation knows (and sizes right at / beyond the limits)
fn gen_invalid(rng: &mut Rng, cheap: bool) -> (G, String) {
    match rng.below(if cheap { 3 } else { 8 }) {
        0..=2 => {
            let bbox = gen_bbox(rng);
            (G::C(CG { bbox, comps: vec![], instr: vec![] }), format!("C{{no components, bbox {bbox:?}}}"))
        }
        3 | 4 => {
            let l = *rng.pick(&[65536usize, 65537, 70000]);
            let with_contours = rng.chance(2, 3);
            let g = SG { bbox: [0; 4], instr: vec![7; l], contours: if with_contours { vec![vec![(1, 1, true)]] } else { vec![] } };
            (G::S(g), format!("S{{{l} instruction bytes 07, {}}}", if with_contours { "one point (1,1,on)" } else { "no contours" }))
        }
        _ => {
            let n = *rng.pick(&[65536usize, 65537, 65537, 65538, 70000, 131073]);
            let k = *rng.pick(&[1usize, 2, 2, 3, 7]);
            (G::S(many_points(n, k)), format!("S{{{n} points in {k} contours: point i = (i%1000, i%7, on iff i%5!=0), bbox [0,0,999,6]}}"))
        }
    }
}

/// a valid glyph whose `write_into` cannot panic: no empty contours, deltas far from the i16 limits
fn gen_tame(rng: &mut Rng) -> G {
    match rng.below(6) {
        0 => G::E,
        1 => G::C(gen_composite(rng)),
        _ => {
            let mut g = gen_simple_random(rng, 8);
            g.contours.retain(|c| !c.is_empty());
            for c in g.contours.iter_mut() {
                for p in c.iter_mut() {
                    p.0 = p.0.clamp(-16000, 16000);
                    p.1 = p.1.clamp(-16000, 16000);
                }
            }
            G::S(g)
        }
    }
}

/// a history: valid glyphs, `Glyph::Empty`, rejected glyphs at the start / in the middle / at the end / in a row,
/// after some of which the caller adds a replacement (an empty glyph, or a small valid one)
fn gen_history(rng: &mut Rng, s: &mut Session, cheap_invalid: bool, tame: bool) -> Vec<HStep> {
    let n = 1 + rng.below(7) as usize;
    let p_bad = *rng.pick(&[1u64, 2, 3, 5]);
    let mut steps = vec![];
    for _ in 0..n {
        if rng.below(6) < p_bad {
            let (g, label) = gen_invalid(rng, cheap_invalid);
            steps.push(hstep(rng, g, Some(label)));
            if rng.chance(1, 2) {
                s.count("hist.after-err:replacement-added");
                let g = if rng.chance(1, 2) { G::E } else { G::S(SG { bbox: [0, 0, 10, 10], instr: vec![], contours: vec![vec![(0, 0, true), (10, 0, true), (10, 10, true)]] }) };
                let label = format!("(replacement) {}", g_spec(&g));
                steps.push(hstep(rng, g, Some(label)));
            } else {
                s.count("hist.after-err:carries-on");
            }
        } else {
            let g = if tame { gen_tame(rng) } else {
                match rng.below(5) {
                    0 => G::E,
                    1 => G::C(gen_composite(rng)),
                    _ => G::S(gen_simple_random(rng, 8)),
                }
            };
            steps.push(hstep(rng, g, None));
        }
    }
    steps
}

struct HistRun {
    /// one char per call: o = Ok, e = Err, t = panic (the history stops there)
    outcomes: String,
    /// indices of the steps that were accepted
    accepted: Vec<usize>,
    /// (glyf bytes, loca bytes, long format) unless a call panicked
    built: Option<(Vec<u8>, Vec<u8>, bool)>,
}

/// drive the REAL builder through the history, carrying on after every `Err`
fn run_history(reals: &[Glyph], steps: &[HStep]) -> HistRun {
    let mut b = GlyfLocaBuilder::new();
    let mut outcomes = String::new();
    let mut accepted = vec![];
    for (k, st) in steps.iter().enumerate() {
        let r = catch(|| match (&reals[k], st.direct) {
            (Glyph::Simple(x), true) => b.add_glyph(x).is_ok(),
            (Glyph::Composite(x), true) => b.add_glyph(x).is_ok(),
            (g, _) => b.add_glyph(g).is_ok(),
        });
        match r {
            Ok(true) => {
                outcomes.push('o');
                accepted.push(k);
            }
            Ok(false) => outcomes.push('e'),
            Err(_) => {
                outcomes.push('t');
                return HistRun { outcomes, accepted, built: None };
            }
        }
    }
    let built = catch(|| {
        let (glyf, loca, fmt) = b.build();
        Some((write_fonts::dump_table(&glyf).ok()?, write_fonts::dump_table(&loca).ok()?, fmt == LocaFormat::Long))
    })
    .ok()
    .flatten();
    HistRun { outcomes, accepted, built }
}

fn history_label(steps: &[HStep]) -> String {
    let t: Vec<String> = steps.iter().enumerate().map(|(k, st)| format!("[{k}{}] {}", if st.direct { " inner type" } else { "" }, st.label)).collect();
    format!("GlyfLocaBuilder::new(), then add_glyph of (every Err ignored): {}", t.join(" ; ")).chars().take(6000).collect()
}

/// Oracle on the real code alone. After ANY history the built tables describe exactly the accepted glyphs.
fn history_oracles(s: &mut Session, steps: &[HStep], must_complete: bool) -> Option<HistRun> {
    let reals: Option<Vec<Glyph>> = steps.iter().map(|st| g_real_any(&st.g)).collect();
    let reals = reals?;
    let run = run_history(&reals, steps);
    let label = history_label(steps);
    // call by call: Err exactly for what validation has to reject; a rejected glyph must not panic instead
    for (k, o) in run.outcomes.chars().enumerate() {
        let why = must_reject(&steps[k].g);
        s.count(&format!("hist.step:{}", match (o, why) { ('o', _) => "ok".to_string(), ('e', Some(w)) => format!("err:{w}"), ('e', None) => "err:?".to_string(), _ => "panic".to_string() }));
        let ok = match o {
            'o' => why.is_none(),
            'e' => why.is_some(),
            _ => why.is_none() && !must_complete,
        };
        s.oracle(
            "history:add_glyph-is-Err-iff-the-glyph-must-be-rejected",
            ok,
            || label.clone(),
            || format!("call [{k}] returned {} but {}; outcomes so far {}", match o { 'o' => "Ok", 'e' => "Err", _ => "a panic" }, match why { Some(w) => format!("the glyph must be rejected ({w})"), None => "the glyph is valid".to_string() }, run.outcomes),
        );
    }
    let Some((glyf_bytes, loca_bytes, is_long)) = run.built.clone() else {
        s.count("hist:stopped-by-panic");
        return Some(run);
    };
    s.count(if is_long { "hist.format:long" } else { "hist.format:short" });
    let rejected_positions: Vec<usize> = run.outcomes.chars().enumerate().filter(|(_, o)| *o == 'e').map(|(k, _)| k).collect();
    if let (Some(first), Some(last)) = (rejected_positions.first(), rejected_positions.last()) {
        s.count(if *first == 0 { "hist.rejected:first-call" } else { "hist.rejected:later-call" });
        if *last + 1 == steps.len() {
            s.count("hist.rejected:last-call");
        }
        if rejected_positions.windows(2).any(|w| w[1] == w[0] + 1) {
            s.count("hist.rejected:two-in-a-row");
        }
    } else {
        s.count("hist.rejected:none");
    }
    let own: Vec<Vec<u8>> = run.accepted.iter().map(|&k| write_fonts::dump_table(&reals[k]).unwrap_or_default()).collect();
    let want_glyf: Vec<u8> = own.iter().flatten().copied().collect();
    let ctx = |what: String| format!("{what}; outcomes {} (accepted calls {:?})", run.outcomes, run.accepted);
    s.oracle(
        "history:glyf=concatenation-of-the-accepted-glyphs(rejected-occupy-no-bytes)",
        glyf_bytes == want_glyf,
        || label.clone(),
        || ctx(format!("glyf has {} bytes, the accepted glyphs' own bytes are {} ({:?}); {}", glyf_bytes.len(), want_glyf.len(), own.iter().map(|o| o.len()).collect::<Vec<_>>(), first_diff_bytes(&glyf_bytes, &want_glyf))),
    );
    s.oracle(
        "history:loca-short-iff-glyf<0x20000",
        is_long == (glyf_bytes.len() >= 0x20000),
        || label.clone(),
        || ctx(format!("glyf len {} long={is_long}", glyf_bytes.len())),
    );
    let parsed = (rglyf::Glyf::read(FontData::new(&glyf_bytes)), read_fonts::tables::loca::Loca::read(FontData::new(&loca_bytes), is_long));
    let (Ok(rglyf_t), Ok(rloca)) = parsed else {
        s.oracle("history:built-tables-parse", false, || label.clone(), || "Glyf/Loca::read failed".into());
        return Some(run);
    };
    s.oracle(
        "history:loca-has-accepted+1-entries",
        rloca.len() == run.accepted.len() && loca_bytes.len() == (run.accepted.len() + 1) * if is_long { 4 } else { 2 },
        || label.clone(),
        || ctx(format!("loca describes {} glyphs in {} bytes", rloca.len(), loca_bytes.len())),
    );
    let base = glyf_bytes.as_ptr() as usize;
    let mut pos = 0usize;
    for (i, &k) in run.accepted.iter().enumerate() {
        let got = catch(|| rloca.get_glyf(GlyphId::new(i as u32), &rglyf_t));
        let (ok, what) = match &got {
            Ok(Ok(None)) => (own[i].is_empty(), "no outline".to_string()),
            Ok(Ok(Some(g))) => {
                let d = g.offset_data();
                let same_bytes = d.as_bytes() == own[i].as_slice();
                let at = d.as_bytes().as_ptr() as usize - base;
                let same_glyph = same_bytes && Glyph::from_table_ref(g) == reals[k];
                (same_bytes && at == pos && same_glyph, format!("{} bytes at {at}{}", d.len(), if same_bytes { "" } else { " (different bytes)" }))
            }
            Ok(Err(e)) => (false, format!("error {e}")),
            Err(p) => (false, format!("panic {p}")),
        };
        s.oracle(
            "history:get_glyf(i)=i-th-accepted-glyph",
            ok,
            || label.clone(),
            || ctx(format!("glyph id {i} (call [{k}], own bytes: {} at {pos}) reads back as: {what}", own[i].len())),
        );
        pos += own[i].len();
    }
    // one past the last accepted glyph: no such glyph
    let beyond = catch(|| matches!(rloca.get_glyf(GlyphId::new(run.accepted.len() as u32), &rglyf_t), Ok(Some(_))));
    s.oracle("history:no-glyph-beyond-the-accepted-ones", beyond == Ok(false), || label.clone(), || ctx("get_glyf(accepted) returned a glyph".into()));
    Some(run)
}

fn first_diff_bytes(a: &[u8], b: &[u8]) -> String {
    match a.iter().zip(b.iter()).position(|(x, y)| x != y) {
        Some(i) => format!("first differing byte at {i}"),
        None => format!("one is a prefix of the other ({} / {} bytes)", a.len(), b.len()),
    }
}

/// correspondence of the same history with `buildHist` (Model/Glyf.lean): outcomes call by call, then the tables
fn history_case(s: &mut Session, steps: &[HStep]) {
    let Some(run) = history_oracles(s, steps, false) else { return };
    let spec: Vec<String> = steps.iter().map(|st| g_spec(&st.g)).collect();
    let resp = match &run.built {
        None => format!("{} | trap", run.outcomes),
        Some((glyf, loca, long)) => format!("{} | {} {} {}", run.outcomes, if *long { "L" } else { "S" }, hex(loca), hex(glyf)),
    };
    s.case("build.hist", format!("hist {}", spec.join(" ")), resp);
}

// ---------------------------------------------------------------- legal but non-optimal flag encodings

/// what one point's flag says about the way its deltas are stored (the writer always picks the shortest; a font
/// from elsewhere need not): `wide` stores a zero / small delta in a longer form than necessary
fn coord_flag_and_bytes(d: i32, short_bit: u8, same_bit: u8, wide: u64) -> (u8, Vec<u8>) {
    if d == 0 && wide == 0 {
        (same_bit, vec![])
    } else if d.abs() <= 255 && wide <= 1 {
        (short_bit | if d >= 0 { same_bit } else { 0 }, vec![d.unsigned_abs() as u8])
    } else {
        (0, (d as i16).to_be_bytes().to_vec())
    }
}

/// A simple glyph's bytes with the flag array cut into arbitrary legal runs: single flags, REPEAT with count 0
/// (two bytes for one point), count 1, short and long repeats, in any mixture. Returns the bytes and, for the
/// distribution, where the two-bytes-per-point pieces sit.
fn encode_nonoptimal(rng: &mut Rng, g: &SG) -> (Vec<u8>, Vec<&'static str>) {
    let pts: Vec<(i16, i16, bool)> = g.contours.iter().flatten().copied().collect();
    let wide_p = *rng.pick(&[0u64, 0, 0, 8, 3]);
    let (mut lx, mut ly) = (0i32, 0i32);
    let mut flags: Vec<u8> = vec![];
    let (mut xs, mut ys) = (vec![], vec![]);
    for p in &pts {
        let (dx, dy) = (p.0 as i32 - lx, p.1 as i32 - ly);
        lx = p.0 as i32;
        ly = p.1 as i32;
        let wx = if wide_p > 0 && rng.below(wide_p) == 0 { 1 + rng.below(2) } else { 0 };
        let wy = if wide_p > 0 && rng.below(wide_p) == 0 { 1 + rng.below(2) } else { 0 };
        let (fx, bx) = coord_flag_and_bytes(dx, 0x02, 0x10, wx);
        let (fy, by) = coord_flag_and_bytes(dy, 0x04, 0x20, wy);
        flags.push(p.2 as u8 | fx | fy);
        xs.extend(bx);
        ys.extend(by);
    }
    // cut every maximal run of equal flags into pieces
    let style = rng.below(5); // 0: every point REPEAT/0, 1: no repeats at all, else mixed
    let mut stream: Vec<u8> = vec![];
    let mut tags: Vec<&'static str> = vec![];
    let mut i = 0;
    while i < flags.len() {
        let mut j = i;
        while j < flags.len() && flags[j] == flags[i] {
            j += 1;
        }
        let mut left = j - i;
        while left > 0 {
            let l = match style {
                0 | 1 => 1,
                _ => match rng.below(6) {
                    0 | 1 => 1,
                    2 => 2,
                    3 => 1 + rng.below(5) as usize,
                    _ => left,
                },
            }
            .min(left)
            .min(256);
            let pos = if i == 0 && left == j - i { "first" } else if j == flags.len() && l == left { "last" } else { "middle" };
            let repeat = match style {
                0 => true,
                1 => false,
                _ => l > 1 || rng.chance(1, 2),
            };
            if repeat {
                stream.push(flags[i] | 0x08);
                stream.push((l - 1) as u8);
                tags.push(match (l, pos) {
                    (1, "first") => "repeat-count-0:first",
                    (1, "last") => "repeat-count-0:last",
                    (1, _) => "repeat-count-0:middle",
                    (2, "first") => "repeat-count-1:first",
                    (2, "last") => "repeat-count-1:last",
                    (2, _) => "repeat-count-1:middle",
                    (l, _) if l > 100 => "repeat-long",
                    _ => "repeat-short",
                });
            } else {
                stream.push(flags[i]);
                tags.push("single");
            }
            left -= l;
        }
        i = j;
    }
    let mut out = vec![];
    out.extend_from_slice(&(g.contours.len() as i16).to_be_bytes());
    for v in g.bbox {
        out.extend_from_slice(&v.to_be_bytes());
    }
    let mut cur = 0usize;
    for c in &g.contours {
        cur += c.len();
        out.extend_from_slice(&((cur - 1) as u16).to_be_bytes());
    }
    out.extend_from_slice(&(g.instr.len() as u16).to_be_bytes());
    out.extend_from_slice(&g.instr);
    out.extend(stream);
    out.extend(xs);
    out.extend(ys);
    if out.len() % 2 == 1 {
        out.push(0);
    }
    (out, tags)
}

/// a two-glyph font (empty + the given raw glyph bytes)
fn font_with_raw(glyph_bytes: &[u8], x_min: i16) -> Result<Vec<u8>, String> {
    use write_fonts::tables::{head::Head, hhea::Hhea, hmtx::Hmtx, hmtx::LongMetric, maxp::Maxp};
    let loca = Loca::new(vec![0, 0, glyph_bytes.len() as u32]);
    let head = Head { units_per_em: 1000, index_to_loc_format: loca.format() as i16, ..Default::default() };
    let hmtx = Hmtx::new(vec![LongMetric::new(500, 0), LongMetric::new(500, x_min)], vec![]);
    let mut fb = write_fonts::FontBuilder::new();
    fb.add_table(&head).map_err(|e| e.to_string())?;
    fb.add_table(&Maxp::new(2)).map_err(|e| e.to_string())?;
    fb.add_table(&Hhea { number_of_h_metrics: 2, ..Default::default() }).map_err(|e| e.to_string())?;
    fb.add_table(&hmtx).map_err(|e| e.to_string())?;
    fb.add_raw(font_types::Tag::new(b"glyf"), glyph_bytes.to_vec());
    fb.add_table(&loca).map_err(|e| e.to_string())?;
    Ok(fb.build())
}

fn draw_unscaled(data: &[u8]) -> Result<String, String> {
    let font = FontRef::new(data).map_err(|e| e.to_string())?;
    let og = font.outline_glyphs().get(GlyphId::new(1)).ok_or("no outline")?;
    let mut pen = CmdPen::default();
    og.draw(skrifa::outline::DrawSettings::unhinted(skrifa::instance::Size::unscaled(), skrifa::instance::LocationRef::default()), &mut pen)
        .map_err(|e| format!("draw error: {e}"))?;
    Ok(pen.0.join(" "))
}

/// Oracles on the real code: a glyph whose flag array is legal but not the shortest one decodes to the same points
/// with `points()`, with `read_points_fast`, and draws (skrifa) like the writer's encoding of the same glyph.
fn nonoptimal_case(s: &mut Session, rng: &mut Rng, g: &SG) {
    let pts: Vec<(i16, i16, bool)> = g.contours.iter().flatten().copied().collect();
    if pts.is_empty() || g.contours.iter().any(|c| c.is_empty()) {
        return;
    }
    let (bytes, tags) = encode_nonoptimal(rng, g);
    for t in &tags {
        s.count(&format!("nonoptimal:{t}"));
    }
    s.case("g.read.nonoptimal", format!("g.read {}", hex(&bytes)), show_glyph_read(&bytes));
    let input = || format!("simple glyph bytes {} (= S {})", hex(&bytes), sg_spec(g).chars().take(1500).collect::<String>());
    let r = catch(|| rglyf::SimpleGlyph::read(FontData::new(&bytes)).map(|r| {
        let slow: Vec<(i16, i16, bool)> = r.points().map(|p| (p.x, p.y, p.on_curve)).collect();
        let n = r.num_points();
        let mut fp = vec![read_fonts::types::Point::<i32>::default(); n];
        let mut ff = vec![rglyf::PointFlags::default(); n];
        let fast = r.read_points_fast(&mut fp, &mut ff).map(|()| fp.iter().zip(ff.iter()).map(|(p, f)| (p.x, p.y, f.is_on_curve())).collect::<Vec<_>>());
        (slow, fast.map_err(|e| e.to_string()))
    }));
    let want32: Vec<(i32, i32, bool)> = pts.iter().map(|p| (p.0 as i32, p.1 as i32, p.2)).collect();
    match &r {
        Ok(Ok((slow, fast))) => {
            s.oracle("nonoptimal-flags:points()=the-encoded-points", *slow == pts, input, || format!("{} points, want {}; first difference at {:?}", slow.len(), pts.len(), slow.iter().zip(pts.iter()).position(|(a, b)| a != b)));
            s.oracle(
                "nonoptimal-flags:read_points_fast=points()",
                fast.as_ref().map_or(false, |f| *f == want32),
                input,
                || match fast {
                    Err(e) => format!("read_points_fast returned Err({e}); points() yields {} points", slow.len()),
                    Ok(f) => format!("first difference at point {:?}", f.iter().zip(want32.iter()).position(|(a, b)| a != b)),
                },
            );
        }
        other => s.oracle("nonoptimal-flags:glyph-parses", false, input, || format!("{:?}", other.as_ref().map(|r| r.as_ref().map(|_| ()).map_err(|e| e.to_string())))),
    }
    // skrifa draws through the fast decoder
    let drawn = catch(|| font_with_raw(&bytes, g.bbox[0]).and_then(|d| draw_unscaled(&d)));
    let canon = catch(|| font_with(&sg_real(g)).and_then(|d| draw_unscaled(&d)));
    let same = matches!((&drawn, &canon), (Ok(Ok(a)), Ok(Ok(b))) if a == b);
    s.oracle("nonoptimal-flags:skrifa-draws-like-the-writer's-encoding", same, input, || format!("non-optimal encoding draws {:?}, the writer's encoding draws {:?}", drawn.as_ref().map(|r| r.as_ref().map(|s| s.chars().take(300).collect::<String>())), canon.as_ref().map(|r| r.as_ref().map(|s| s.chars().take(300).collect::<String>()))));
}

// ---------------------------------------------------------------- reader fuzz

fn mutate(rng: &mut Rng, bytes: &[u8]) -> Vec<u8> {
    let mut b = bytes.to_vec();
    match rng.below(6) {
        0 => {
            let n = rng.below(b.len() as u64 + 1) as usize;
            b.truncate(n);
        }
        1 => {
            let extra = 1 + rng.below(6) as usize;
            b.extend(rng.bytes(extra));
        }
        2 if !b.is_empty() => {
            for _ in 0..1 + rng.below(3) {
                let i = rng.below(b.len() as u64) as usize;
                b[i] ^= 1 << rng.below(8);
            }
        }
        3 if !b.is_empty() => {
            let i = rng.below(b.len() as u64) as usize;
            b[i] = *rng.pick(&[0u8, 1, 8, 9, 0x37, 0x39, 0xff, 0x3f, 0x80]);
        }
        4 if b.len() > 12 => {
            // corrupt the flags/coords area specifically
            let i = 12 + rng.below(b.len() as u64 - 12) as usize;
            b[i] = rng.next() as u8;
        }
        _ => {
            if b.len() >= 2 {
                // contour count / instruction length fields
                let nc = *rng.pick(&[0u16, 1, 2, 0xffff, 0x8000, 0x7fff, 3]);
                b[0] = (nc >> 8) as u8;
                b[1] = nc as u8;
            }
        }
    }
    b
}

// ---------------------------------------------------------------- main

fn run(cfg: &Config, s: &mut Session) {
    let mut rng = Rng::new(cfg.seed);
    let t = cfg.thorough();
    let scale = if t { 120 } else { 1 };
    let mut corpus: Vec<Vec<u8>> = vec![];

    // --- the confirmed defect's reproducer: 300 collinear on-curve points (run > 256)
    {
        let pts: Vec<(i16, i16, bool)> = (0..300).map(|i| (i as i16, 0, true)).collect();
        let g = SG { bbox: [0, 0, 299, 0], instr: vec![], contours: vec![pts] };
        simple_case(s, &g, "sg.write.runs");
    }
    // --- hand-picked shapes
    let fixed: Vec<SG> = vec![
        SG { bbox: [0; 4], instr: vec![], contours: vec![] },
        SG { bbox: [1, 2, 3, 4], instr: vec![1, 2, 3], contours: vec![] },
        SG { bbox: [0; 4], instr: vec![], contours: vec![vec![]] },
        SG { bbox: [0; 4], instr: vec![], contours: vec![vec![(0, 0, true)]] },
        SG { bbox: [0; 4], instr: vec![], contours: vec![vec![(0, 0, false)]] },
        SG { bbox: [0; 4], instr: vec![9], contours: vec![vec![(5, 5, true)], vec![], vec![(6, 6, true)]] },
        SG { bbox: [0; 4], instr: vec![], contours: vec![vec![], vec![(6, 6, true)]] },
        SG { bbox: [278, 470, 998, 710], instr: vec![], contours: vec![vec![(278, 710, true), (278, 470, true), (998, 470, true), (998, 710, true)]] },
        SG { bbox: [0; 4], instr: vec![], contours: vec![vec![(-32768, -32768, true), (32767, 32767, true)]] },
        SG { bbox: [0; 4], instr: vec![], contours: vec![vec![(-32768, 0, true), (-1, 0, true), (32767, 0, false)]] },
        SG { bbox: [0; 4], instr: vec![], contours: vec![vec![(32767, 32767, true), (32767, 32767, true)]] },
    ];
    for g in &fixed {
        if let Some(b) = simple_case(s, g, "sg.write.fixed") {
            corpus.push(b);
        }
    }
    // --- every single-delta class for x and y (first point) and second point
    for &dx in DELTAS.iter() {
        for &dy in [0i32, 1, -1, 255, -255, 256, -256, 32767, -32768].iter() {
            if dx >= -32768 && dx <= 32767 {
                let g = SG {
                    bbox: [0; 4],
                    instr: vec![],
                    contours: vec![vec![(dx as i16, dy as i16, true), (0, 0, dx % 2 == 0)]],
                };
                simple_case(s, &g, "sg.write.delta-grid");
            }
        }
    }
    // --- single flag runs of every length around the repeat-count boundaries
    let lens: Vec<usize> = if t {
        (1..=600).chain([767, 768, 769, 770, 1023, 1024, 1025, 1026]).collect()
    } else {
        (1..=6).chain(250..=262).chain(508..=516).chain([600, 767, 768, 769, 770]).collect()
    };
    for &len in &lens {
        for cls in [0u64, 2] {
            let mut x = 0i16;
            let pts: Vec<(i16, i16, bool)> = (0..len).map(|i| { x = class_step(&mut rng, cls, x, i); (x, 0, true) }).collect();
            // bracket the run with different flags on some cases
            let mut all = vec![];
            if len % 3 == 1 {
                all.push((-5, -5, false));
            }
            all.extend(pts);
            if len % 2 == 0 {
                all.push((1000, 1000, false));
            }
            let g = SG { bbox: [0; 4], instr: vec![], contours: vec![all] };
            simple_case(s, &g, "sg.write.runs");
        }
    }
    // --- multiple runs
    for _ in 0..40 * scale {
        let nruns = 1 + rng.below(6) as usize;
        let g = gen_simple_runs(&mut rng, nruns, &RUN_LENS);
        if let Some(b) = simple_case(s, &g, "sg.write.runs") {
            if b.len() < 400 {
                corpus.push(b);
            }
        }
    }
    for _ in 0..150 * scale {
        let nruns = 1 + rng.below(12) as usize;
        let g = gen_simple_runs(&mut rng, nruns, &[1, 1, 1, 2, 2, 3, 4, 5]);
        if let Some(b) = simple_case(s, &g, "sg.write.runs") {
            corpus.push(b);
        }
    }
    // --- random deltas from the boundary set
    for i in 0..600 * scale {
        let g = gen_simple_random(&mut rng, if i % 10 == 0 { 300 } else { 12 });
        if let Some(b) = simple_case(s, &g, "sg.write.random") {
            if b.len() < 300 {
                corpus.push(b);
            }
        }
    }
    // --- limits: contour count, instruction length, point count
    {
        let one = |n: usize| SG { bbox: [0; 4], instr: vec![], contours: (0..n).map(|i| vec![(i as i16, 0, true)]).collect() };
        simple_case(s, &one(32766), "sg.write.limits");
        simple_case(s, &one(32767), "sg.write.limits");
        for l in [65534usize, 65535, 65536] {
            let g = SG { bbox: [0; 4], instr: vec![7; l], contours: vec![vec![(1, 1, true)]] };
            simple_case(s, &g, "sg.write.limits");
        }
        for n in [65535usize, 65536, 65537] {
            let pts: Vec<(i16, i16, bool)> = (0..n).map(|i| ((i % 1000) as i16, (i % 7) as i16, i % 5 != 0)).collect();
            let g = SG { bbox: [0; 4], instr: vec![], contours: vec![pts[..n / 2].to_vec(), pts[n / 2..].to_vec()] };
            simple_case(s, &g, "sg.write.limits");
        }
    }

    // --- composites
    let mut ccorpus: Vec<Vec<u8>> = vec![];
    for &a in ANCH_I.iter() {
        for &b in [0i16, 127, 128, -128, -129].iter() {
            let g = CG { bbox: [0; 4], comps: vec![Comp { glyph: 3, anchor: An::Off(a, b), uflags: 0, tr: [0x4000, 0, 0, 0x4000] }], instr: vec![] };
            composite_case(s, &g);
        }
    }
    for &a in ANCH_U.iter() {
        for &b in [0u16, 255, 256].iter() {
            let g = CG { bbox: [0; 4], comps: vec![Comp { glyph: 3, anchor: An::Pt(a, b), uflags: 31, tr: [0x4000, 0, 0, 0x4000] }], instr: vec![] };
            composite_case(s, &g);
        }
    }
    for &xx in TR.iter() {
        for &yy in TR.iter() {
            for (yx, xy) in [(0i16, 0i16), (1, 0), (0, -1)] {
                let g = CG { bbox: [1, 2, 3, 4], comps: vec![Comp { glyph: 9, anchor: An::Off(1, 1), uflags: 0, tr: [xx, yx, xy, yy] }], instr: vec![] };
                composite_case(s, &g);
            }
        }
    }
    composite_case(s, &CG { bbox: [0; 4], comps: vec![], instr: vec![] });
    for _ in 0..300 * scale {
        let g = gen_composite(&mut rng);
        if let Some(b) = composite_case(s, &g) {
            ccorpus.push(b);
        }
    }

    // --- reader on damaged glyphs (model of the reader's error paths)
    for _ in 0..1500 * scale {
        let src = if rng.chance(3, 4) { rng.pick(&corpus) } else { rng.pick(&ccorpus) };
        let m = mutate(&mut rng, src);
        s.case("g.read.fuzz", format!("g.read {}", hex(&m)), show_glyph_read(&m));
        let o = show_owned(&m);
        s.count(&format!("owned.fuzz:{}", if o.contains('|') { "ok" } else { o.as_str() }));
        s.case("g.owned.fuzz", format!("g.owned {}", hex(&m)), o);
    }
    // the OVERLAP_SIMPLE bit (0x40) and the reserved bit (0x80) on the first flag byte: the writer
    // never sets them; every decoder must ignore them
    for src in corpus.iter().take(if t { 2000 } else { 300 }) {
        let Ok(g) = rglyf::SimpleGlyph::read(FontData::new(src)) else { continue };
        if g.number_of_contours() <= 0 || g.num_points() == 0 {
            continue;
        }
        let fpos = 10 + 2 * g.number_of_contours() as usize + 2 + g.instructions().len();
        let want: Vec<(i16, i16, bool)> = g.points().map(|p| (p.x, p.y, p.on_curve)).collect();
        for bit in [0x40u8, 0x80, 0xc0] {
            let mut m = src.clone();
            m[fpos] |= bit;
            s.case("g.read.overlap", format!("g.read {}", hex(&m)), show_glyph_read(&m));
            let r = catch(|| {
                let g2 = rglyf::SimpleGlyph::read(FontData::new(&m)).unwrap();
                let got: Vec<(i16, i16, bool)> = g2.points().map(|p| (p.x, p.y, p.on_curve)).collect();
                let n = g2.num_points();
                let mut fp = vec![read_fonts::types::Point::<i32>::default(); n];
                let mut ff = vec![rglyf::PointFlags::default(); n];
                let fast_ok = g2.read_points_fast(&mut fp, &mut ff).is_ok();
                let fast: Vec<(i16, i16, bool)> =
                    fp.iter().zip(ff.iter()).map(|(p, f)| (p.x as i16, p.y as i16, f.is_on_curve())).collect();
                (got, fast_ok, fast, g2.has_overlapping_contours())
            });
            let ok = match &r {
                Ok((got, fast_ok, fast, ov)) => *got == want && *fast_ok && *fast == want && *ov == (bit & 0x40 != 0),
                Err(_) => false,
            };
            s.oracle("overlap/reserved-flag-bits-ignored", ok, || hex(&m), || format!("{:?}", r.as_ref().map(|x| (x.1, x.3))));
        }
    }
    // hand-made flag streams: repeat counts 254/255 with too few / too many points
    for rep in [0u8, 1, 254, 255] {
        for npts in [1u16, 2, 255, 256, 257, 300, 511, 512] {
            for flag in [0x39u8, 0x09, 0x3b, 0x1f] {
                let mut d = vec![0u8, 1, 0, 0, 0, 0, 0, 0, 0, 0];
                d.extend_from_slice(&(npts - 1).to_be_bytes());
                d.extend_from_slice(&[0, 0]);
                d.extend_from_slice(&[flag, rep, flag & !8, flag, rep]);
                let extra = *rng.pick(&[0usize, 3, 700, 1100]);
                d.extend(rng.bytes(extra));
                s.case("g.read.fuzz", format!("g.read {}", hex(&d)), show_glyph_read(&d));
            }
        }
    }

    // --- loca writer on arbitrary offsets
    let lw: Vec<Vec<u32>> = vec![
        vec![], vec![0], vec![0, 0], vec![24, 48, 112], vec![24, 7, 112], vec![0, 0x1fffe], vec![0, 0x1ffff],
        vec![0, 0x20000], vec![0, 0x20002], vec![0x30000, 2], vec![0, 0x40000, 0x1fffe], vec![0, 0xfffffffe], vec![0, 0xffffffff],
        vec![1], vec![0, 2, 4, 6, 5, 8],
    ];
    for o in &lw {
        loca_write_case(s, o);
    }
    for _ in 0..200 * scale {
        let n = rng.below(8) as usize;
        let mut o: Vec<u32> = vec![];
        let mut cur = 0u32;
        let odd = rng.chance(1, 5);
        let bigstep = rng.chance(1, 4);
        for _ in 0..=n {
            o.push(cur);
            let stepv = if bigstep { rng.below(0x12000) as u32 } else { rng.below(300) as u32 };
            cur = cur.saturating_add(if odd { stepv } else { stepv & !1 });
        }
        if rng.chance(1, 10) {
            rng.shuffle(&mut o);
        }
        loca_write_case(s, &o);
    }

    // --- builder: small mixed tables
    for _ in 0..120 * scale {
        let n = rng.below(7) as usize;
        let glyphs: Vec<G> = (0..n)
            .map(|_| match rng.below(4) {
                0 => G::E,
                1 => G::C(gen_composite(&mut rng)),
                _ => {
                    let mut g = gen_simple_random(&mut rng, 8);
                    if rng.chance(1, 8) {
                        g.contours.clear();
                    }
                    G::S(g)
                }
            })
            .collect();
        build_case(s, &glyphs, false);
    }
    // --- builder: tables on both sides of the short/long boundary (last offset 0x1FFFC..0x20004)
    let targets: Vec<usize> = if t {
        vec![0x1fff8, 0x1fffa, 0x1fffc, 0x1fffe, 0x20000, 0x20002, 0x20004, 0x20006, 0x30000]
    } else {
        vec![0x1fffc, 0x1fffe, 0x20000, 0x20002]
    };
    for (k, &total) in targets.iter().enumerate() {
        let glyphs: Vec<G> = if k % 2 == 0 {
            vec![G::S(simple_of_size(0x10000)), G::E, G::S(simple_of_size(total - 0x10000))]
        } else {
            // many small glyphs then a filler
            let mut v: Vec<G> = vec![];
            let mut used = 0usize;
            for _ in 0..40 {
                let g = gen_simple_runs(&mut rng, 2, &[1, 2, 3, 300]);
                if let (_, Some(b)) = write_outcome(&Glyph::Simple(sg_real(&g))) {
                    used += b.len();
                    v.push(G::S(g));
                }
            }
            // (an odd remainder can only come from a writer that no longer pads glyphs)
            let mut rest = (total - used) & !1usize;
            while rest > 0xfff0 {
                v.push(G::S(simple_of_size(0xf000)));
                rest -= 0xf000;
            }
            v.push(G::S(simple_of_size(rest)));
            v
        };
        build_case(s, &glyphs, true);
    }
    // --- loca.get on inconsistent tables (wrong format flag, damaged loca)
    for _ in 0..60 * scale {
        let n = 1 + rng.below(4) as usize;
        let glyphs: Vec<Glyph> = (0..n).map(|_| Glyph::Simple(sg_real(&gen_simple_random(&mut rng, 6)))).collect();
        let mut b = GlyfLocaBuilder::new();
        let mut ok = true;
        for g in &glyphs {
            ok &= matches!(catch(|| b.add_glyph(g).is_ok()), Ok(true));
            if !ok {
                break;
            }
        }
        if !ok {
            continue;
        }
        let (glyf, loca, fmt) = b.build();
        let glyf_b = write_fonts::dump_table(&glyf).unwrap();
        let mut loca_b = write_fonts::dump_table(&loca).unwrap();
        let mut is_long = fmt == LocaFormat::Long;
        match rng.below(4) {
            0 => is_long = !is_long,
            1 => loca_b = mutate(&mut rng, &loca_b),
            2 => {
                let i = rng.below(loca_b.len() as u64) as usize;
                loca_b[i] = rng.next() as u8;
            }
            _ => {}
        }
        for gid in 0..n as u32 + 2 {
            loca_get_case(s, is_long, &loca_b, &glyf_b, gid);
        }
    }

    // --- BezPath -> SimpleGlyph -> font -> skrifa draw (unscaled)
    let mut drawn = 0;
    let mut tries = 0;
    while drawn < 300 * scale && tries < 5000 * scale {
        tries += 1;
        let p = gen_path(&mut rng);
        if !in_i16_path(&p) {
            continue;
        }
        drawn += 1;
        path_case(s, &p);
        draw_case(s, &p);
        if let Ok(Ok(g)) = catch(|| SimpleGlyph::from_bezpath(&p)) {
            draw_glyph_case(s, &g, "draw.path");
        }
    }
    // arbitrary on/off sequences (first point off-curve, runs of off-curve points, single points)
    for _ in 0..400 * scale {
        let mut g = gen_simple_random(&mut rng, 10);
        g.contours.retain(|c| !c.is_empty());
        if rng.chance(1, 2) {
            for c in g.contours.iter_mut() {
                for p in c.iter_mut() {
                    p.0 = p.0.clamp(-16000, 16000);
                    p.1 = p.1.clamp(-16000, 16000);
                }
            }
        }
        draw_glyph_case(s, &sg_real(&g), "draw.random");
    }
    for _ in 0..1500 * scale {
        let p = gen_el_soup(&mut rng);
        path_case(s, &p);
    }
    for svg in [
        "M278,710 L278,470 L998,470 L998,710 Z",
        "M0,1 Q1,1 1,0 Q1,-1 0,-1 Q-1,-1 -1,0 Q-1,1 0,1 Z",
        "M0,0 Q0,1 1,1 Q2,1 2,0 L0,0 Z",
        "M0,0 Q2,2 4,3 Q6,2 8,0 Z",
        "M20,-100 Q1337,1338 -50,-69 Q13,255 -255,256 Z",
    ] {
        path_case(s, &kurbo::BezPath::from_svg(svg).unwrap());
        draw_case(s, &kurbo::BezPath::from_svg(svg).unwrap());
    }
    // --- legal but non-optimal flag arrays (up to two flag bytes per point): both decoders and the draw agree
    {
        // the three-point glyph whose flags are all REPEAT with count 0
        let g = SG { bbox: [0, 0, 500, 500], instr: vec![], contours: vec![vec![(1, 4, true), (3, 9, true), (6, 15, true)]] };
        for _ in 0..6 {
            nonoptimal_case(s, &mut rng, &g);
        }
    }
    for k in 0..300 * scale {
        let mut g = if k % 3 == 0 {
            let nruns = 1 + rng.below(4) as usize;
            gen_simple_runs(&mut rng, nruns, &[1, 2, 3, 5, 40, 256, 257, 300, 520])
        } else {
            gen_simple_random(&mut rng, 14)
        };
        g.contours.retain(|c| !c.is_empty());
        for c in g.contours.iter_mut() {
            for p in c.iter_mut() {
                p.0 = p.0.clamp(-16000, 16000);
                p.1 = p.1.clamp(-16000, 16000);
            }
        }
        g.instr.truncate(8);
        nonoptimal_case(s, &mut rng, &g);
    }
    // --- builder histories with failures in the middle (the caller carries on after every Err)
    {
        // every kind of rejected glyph first / in the middle / last, followed by an empty glyph, a glyph, nothing
        let tri = G::S(SG { bbox: [0, 0, 10, 10], instr: vec![1, 2], contours: vec![vec![(0, 0, true), (10, 0, true), (5, 10, false)]] });
        let bad: Vec<(G, String)> = vec![
            (G::C(CG { bbox: [1, 2, 3, 4], comps: vec![], instr: vec![] }), "C{no components, bbox [1,2,3,4]}".into()),
            (G::S(many_points(65537, 2)), "S{65537 points in 2 contours: point i = (i%1000, i%7, on iff i%5!=0), bbox [0,0,999,6]}".into()),
            (G::S(SG { bbox: [0; 4], instr: vec![7; 65536], contours: vec![vec![(1, 1, true)]] }), "S{65536 instruction bytes 07, one point (1,1,on)}".into()),
        ];
        for (bi, (b, bl)) in bad.iter().enumerate() {
            let shapes: Vec<Vec<usize>> = vec![vec![9, 0], vec![9, 1], vec![1, 9, 1], vec![0, 9, 0], vec![1, 9], vec![9, 9, 1, 9, 0, 1], vec![9]];
            for shape in shapes {
                let steps: Vec<HStep> = shape
                    .iter()
                    .map(|&k| match k {
                        0 => hstep(&mut rng, G::E, None),
                        1 => hstep(&mut rng, tri.clone(), None),
                        _ => hstep(&mut rng, b.clone(), Some(bl.clone())),
                    })
                    .collect();
                // the model sees the cheap kind in every shape, the two big kinds once each
                if bi == 0 || shape.len() == 3 {
                    history_case(s, &steps);
                } else {
                    history_oracles(s, &steps, true);
                }
            }
        }
    }
    for _ in 0..150 * scale {
        let steps = gen_history(&mut rng, s, true, false);
        history_case(s, &steps);
    }
    for _ in 0..(if t { 600 } else { 60 }) {
        let steps = gen_history(&mut rng, s, false, true);
        history_oracles(s, &steps, true);
    }
    // both loca formats: totals on both sides of the 128 KiB short/long boundary, rejected glyphs in between
    for &total in &[0x1fffcusize, 0x1fffe, 0x20000, 0x20002, 0x20004, 0x30000] {
        for variant in 0..(if t { 6 } else { 2 }) {
            let mut steps: Vec<HStep> = vec![];
            let mut used = 0usize;
            let filler = |rng: &mut Rng, size: usize| hstep(rng, G::S(simple_of_size(size)), Some(format!("S{{filler: one point (0,0,on), {} instruction bytes 4f => {} bytes}}", (size & !1usize).max(16) - 15, (size & !1usize).max(16))));
            steps.push(filler(&mut rng, 0x10000));
            used += 0x10000;
            for _ in 0..3 + variant {
                if rng.chance(1, 2) {
                    let (g, label) = gen_invalid(&mut rng, variant % 2 == 0);
                    steps.push(hstep(&mut rng, g, Some(label)));
                }
                let g = gen_tame(&mut rng);
                if let Some(real) = g_real(&g) {
                    if let Ok(b) = write_fonts::dump_table(&real) {
                        used += b.len();
                        steps.push(hstep(&mut rng, g, None));
                    }
                }
            }
            let (g, label) = gen_invalid(&mut rng, false);
            steps.push(hstep(&mut rng, g, Some(label)));
            let mut rest = total - used;
            while rest > 0xfff0 {
                steps.push(filler(&mut rng, 0xf000));
                rest -= 0xf000;
            }
            steps.push(filler(&mut rng, rest));
            if rng.chance(1, 2) {
                let (g, label) = gen_invalid(&mut rng, true);
                steps.push(hstep(&mut rng, g, Some(label)));
            }
            history_oracles(s, &steps, true);
        }
    }
    // --- implied-point decisions: joins on / next to the midpoint of their control points must redraw exactly
    {
        // (control, join, control): exact midpoint; x.5 / y.5 midpoints with the join on each neighbouring grid
        // point (positive and negative sums: truncation and floor differ); one axis only; one unit off
        let mut fixed: Vec<[(i64, i64); 3]> = vec![[(10, 0), (16, 6), (22, 12)], [(10, 0), (15, 6), (20, 12)], [(10, 0), (17, 6), (22, 12)]];
        for (c0, c1) in [((10, 0), (21, 11)), ((-11, 0), (0, 11)), ((-10, 0), (-21, -11)), ((10, 0), (21, 12)), ((10, 0), (22, 11)), ((-3, -8), (-8, -3))] {
            let (sx, sy): (i64, i64) = (c0.0 + c1.0, c0.1 + c1.1);
            for jx in [sx.div_euclid(2), sx.div_euclid(2) + sx.rem_euclid(2)] {
                for jy in [sy.div_euclid(2), sy.div_euclid(2) + sy.rem_euclid(2)] {
                    fixed.push([c0, (jx, jy), c1]);
                }
            }
        }
        for [c0, j, c1] in fixed {
            let f = |p: (i64, i64)| (p.0 as f64, p.1 as f64);
            let mut p = kurbo::BezPath::new();
            p.move_to((0.0, 0.0));
            p.quad_to(f(c0), f(j));
            p.quad_to(f(c1), (40.0, 11.0));
            p.line_to((40.0, -20.0));
            p.line_to((0.0, -20.0));
            p.close_path();
            path_case(s, &p);
            exact_draw_case(s, &p);
            draw_case(s, &p);
        }
    }
    for _ in 0..500 * scale {
        let mut p = kurbo::BezPath::new();
        for _ in 0..*rng.pick(&[1, 1, 1, 2]) {
            gen_join_contour(&mut rng, s, &mut p);
        }
        path_case(s, &p);
        exact_draw_case(s, &p);
    }
}

fn main() {
    fv_harness::main_with("C09", run)
}
