//! Shared plumbing: PRNG, case recording, driver round trip, result JSON.
use serde_json::{json, Value};
use std::collections::{BTreeMap, HashSet};
use std::io::Write;
use std::panic::{catch_unwind, AssertUnwindSafe};
use std::path::{Path, PathBuf};
use std::process::{Command, Stdio};

/// SplitMix64: every random choice of a run derives from one seed.
#[derive(Clone)]
pub struct Rng(pub u64);

impl Rng {
    pub fn new(seed: u64) -> Self {
        Rng(seed ^ 0x9E37_79B9_7F4A_7C15)
    }
    pub fn next(&mut self) -> u64 {
        self.0 = self.0.wrapping_add(0x9E37_79B9_7F4A_7C15);
        let mut z = self.0;
        z = (z ^ (z >> 30)).wrapping_mul(0xBF58_476D_1CE4_E5B9);
        z = (z ^ (z >> 27)).wrapping_mul(0x94D0_49BB_1331_11EB);
        z ^ (z >> 31)
    }
    /// uniform in 0..n (n > 0)
    pub fn below(&mut self, n: u64) -> u64 {
        self.next() % n
    }
    pub fn range(&mut self, lo: i64, hi: i64) -> i64 {
        lo + (self.next() % ((hi - lo + 1) as u64)) as i64
    }
    pub fn chance(&mut self, num: u64, den: u64) -> bool {
        self.below(den) < num
    }
    pub fn pick<'a, T>(&mut self, xs: &'a [T]) -> &'a T {
        &xs[self.below(xs.len() as u64) as usize]
    }
    pub fn bytes(&mut self, n: usize) -> Vec<u8> {
        (0..n).map(|_| self.next() as u8).collect()
    }
    pub fn shuffle<T>(&mut self, xs: &mut [T]) {
        for i in (1..xs.len()).rev() {
            let j = self.below(i as u64 + 1) as usize;
            xs.swap(i, j);
        }
    }
}

/// Boundary-dense i32 operands: every constant that appears in the fixed-point code, ±1.
pub fn boundary_i32() -> Vec<i32> {
    let mut v: Vec<i64> = vec![];
    let bases: [i64; 22] = [
        0, 1, 2, 3, 31, 32, 33, 63, 64, 127, 128, 255, 256, 0x1FF, 0x200, 0x3FFF, 0x4000, 0x7FFF,
        0x8000, 0xFFFF, 0x10000, 0x18000,
    ];
    for b in bases {
        for d in [-1i64, 0, 1] {
            v.push(b + d);
            v.push(-(b + d));
        }
    }
    for sh in [20, 24, 30, 31] {
        for d in [-2i64, -1, 0, 1] {
            v.push((1i64 << sh) + d);
            v.push(-(1i64 << sh) + d);
            v.push(-(1i64 << sh) - d);
        }
    }
    let mut out: Vec<i32> = v
        .into_iter()
        .filter(|x| *x >= i32::MIN as i64 && *x <= i32::MAX as i64)
        .map(|x| x as i32)
        .collect();
    out.sort();
    out.dedup();
    out
}

pub fn hex(bytes: &[u8]) -> String {
    if bytes.is_empty() {
        return "-".into();
    }
    let mut s = String::with_capacity(bytes.len() * 2);
    for b in bytes {
        s.push_str(&format!("{:02x}", b));
    }
    s
}

pub fn unhex(s: &str) -> Vec<u8> {
    if s == "-" {
        return vec![];
    }
    (0..s.len() / 2)
        .map(|i| u8::from_str_radix(&s[2 * i..2 * i + 2], 16).unwrap())
        .collect()
}

pub fn join<T: std::fmt::Display>(xs: &[T]) -> String {
    if xs.is_empty() {
        return "-".into();
    }
    xs.iter().map(|x| x.to_string()).collect::<Vec<_>>().join(" ")
}

/// Run `f`, mapping a panic to `Err(message)`.
pub fn catch<T>(f: impl FnOnce() -> T) -> Result<T, String> {
    match catch_unwind(AssertUnwindSafe(f)) {
        Ok(v) => Ok(v),
        Err(e) => {
            let msg = if let Some(s) = e.downcast_ref::<&str>() {
                s.to_string()
            } else if let Some(s) = e.downcast_ref::<String>() {
                s.clone()
            } else {
                "panic".to_string()
            };
            Err(msg)
        }
    }
}

/// canonical rendering of a possibly-trapping integer result
pub fn trap_or<T: std::fmt::Display>(r: Result<T, String>) -> String {
    match r {
        Ok(v) => v.to_string(),
        Err(_) => "trap".into(),
    }
}

pub struct Config {
    pub prop: String,
    pub tier: String,
    pub seed: u64,
    pub driver: PathBuf,
    pub out: PathBuf,
    pub replay: Option<PathBuf>,
}

impl Config {
    pub fn thorough(&self) -> bool {
        self.tier == "thorough"
    }
}

/// One recorded finding: the implementation itself contradicts the property's oracle
/// (independent of the Lean model).
#[derive(Clone)]
pub struct OracleFailure {
    pub oracle: String,
    pub input: String,
    pub detail: String,
}

pub struct Session {
    pub prop: String,
    /// (request line for the Lean driver, implementation's canonical response, group label)
    cases: Vec<(String, String, &'static str)>,
    pub oracle_failures: Vec<OracleFailure>,
    pub oracle_checks: u64,
    pub dist: BTreeMap<String, u64>,
    pub notes: Vec<String>,
    extra_samples: Vec<Value>,
}

impl Session {
    pub fn new(prop: &str) -> Self {
        Session {
            prop: prop.to_string(),
            cases: vec![],
            oracle_failures: vec![],
            oracle_checks: 0,
            dist: BTreeMap::new(),
            notes: vec![],
            extra_samples: vec![],
        }
    }

    /// Record a correspondence case: `req` goes to the Lean driver, whose answer must equal
    /// `impl_resp`.
    pub fn case(&mut self, group: &'static str, req: String, impl_resp: String) {
        *self.dist.entry(format!("group:{group}")).or_insert(0) += 1;
        self.cases.push((req, impl_resp, group));
    }

    pub fn count(&mut self, key: &str) {
        *self.dist.entry(key.to_string()).or_insert(0) += 1;
    }

    /// Evaluate a property oracle on the implementation's own observable behaviour.
    pub fn oracle(&mut self, name: &str, ok: bool, input: impl FnOnce() -> String, detail: impl FnOnce() -> String) {
        self.oracle_checks += 1;
        if !ok && self.oracle_failures.len() < 200 {
            self.oracle_failures.push(OracleFailure {
                oracle: name.to_string(),
                input: input(),
                detail: detail(),
            });
        } else if !ok {
            self.count("oracle_failures_dropped");
        }
    }

    pub fn sample(&mut self, v: Value) {
        if self.extra_samples.len() < 12 {
            self.extra_samples.push(v);
        }
    }

    /// Pipe all requests through the Lean driver, diff, and write the result file.
    pub fn finish(self, cfg: &Config, wall_start: std::time::Instant) -> std::io::Result<()> {
        let n = self.cases.len();
        let mut model_out: Vec<String> = Vec::with_capacity(n);
        let mut driver_error: Option<String> = None;
        if n > 0 {
            let mut child = Command::new(&cfg.driver)
                .stdin(Stdio::piped())
                .stdout(Stdio::piped())
                .stderr(Stdio::piped())
                .spawn()?;
            let mut stdin = child.stdin.take().unwrap();
            let reqs: Vec<u8> = {
                let mut buf = Vec::new();
                for (r, _, _) in &self.cases {
                    buf.extend_from_slice(r.as_bytes());
                    buf.push(b'\n');
                }
                buf
            };
            if let Some(p) = std::env::var_os("FV_DUMP_REQS") {
                let _ = std::fs::write(p, &reqs);
            }
            let writer = std::thread::spawn(move || {
                let _ = stdin.write_all(&reqs);
            });
            let output = child.wait_with_output()?;
            let _ = writer.join();
            let text = String::from_utf8_lossy(&output.stdout).to_string();
            model_out = text.lines().map(|s| s.to_string()).collect();
            if !output.status.success() || model_out.len() != n {
                driver_error = Some(format!(
                    "driver exit={:?} lines={} expected={} stderr={}",
                    output.status.code(),
                    model_out.len(),
                    n,
                    String::from_utf8_lossy(&output.stderr).chars().take(500).collect::<String>()
                ));
            }
        }
        let mut disagreements: Vec<Value> = vec![];
        let mut n_dis = 0u64;
        let mut distinct: HashSet<&str> = HashSet::new();
        let mut nontrivial = 0u64;
        for (i, (req, imp, group)) in self.cases.iter().enumerate() {
            if distinct.insert(req.as_str()) {
                nontrivial += 1;
            }
            let m = model_out.get(i).map(|s| s.as_str()).unwrap_or("<missing>");
            if m != imp {
                n_dis += 1;
                if disagreements.len() < 50 {
                    disagreements.push(json!({"group": group, "req": req, "impl": imp, "model": m}));
                }
            }
        }
        let mut samples: Vec<Value> = vec![];
        // spread samples over the run
        if n > 0 {
            let step = (n / 8).max(1);
            let mut i = 0;
            while i < n && samples.len() < 8 {
                let (req, imp, group) = &self.cases[i];
                let req_s: String = req.chars().take(300).collect();
                let imp_s: String = imp.chars().take(300).collect();
                samples.push(json!({"group": group, "req": req_s, "impl": imp_s}));
                i += step;
            }
        }
        samples.extend(self.extra_samples.iter().cloned());
        let oracle_failures: Vec<Value> = self
            .oracle_failures
            .iter()
            .map(|f| json!({"oracle": f.oracle, "input": f.input, "detail": f.detail}))
            .collect();
        let result = json!({
            "property_id": self.prop,
            "tier": cfg.tier,
            "seed": cfg.seed,
            "evaluations": n as u64 + self.oracle_checks,
            "correspondence_cases": n,
            "distinct_nontrivial": nontrivial,
            "oracle_checks": self.oracle_checks,
            "disagreements": disagreements,
            "disagreement_count": n_dis,
            "oracle_failures": oracle_failures,
            "driver_error": driver_error,
            "distribution": self.dist,
            "notes": self.notes,
            "samples": samples,
            "wall_s": wall_start.elapsed().as_secs_f64(),
        });
        if let Some(parent) = Path::new(&cfg.out).parent() {
            std::fs::create_dir_all(parent)?;
        }
        std::fs::write(&cfg.out, serde_json::to_vec_pretty(&result).unwrap())?;
        Ok(())
    }
}
