"""Per-property configuration for ./check: Lean modules holding the property theorems,
translators to re-run, and descriptive text that goes into the evidence file."""

PROPS = {
    "C15": {
        "props": ["FontVerif.Props.C15"],
        "translators": [],
        "rule": "font-types operators vs Model/Fixed.lean: boundary grid^2 (every constant in fixed.rs +-1, "
                "powers of two +-2, i32::MIN/MAX) for mul/div, grid x small^2 for mul_div, random mixed-magnitude "
                "operands, exhaustive 16-bit conversions, 24-bit byte patterns (strided in quick, exhaustive in "
                "thorough); oracles compare with exact i128 rounding, float and big-endian round trips.",
        "assumptions": [
            "IEEE-754 operations on exactly representable operands with exactly representable results are exact "
            "(float conversions are checked by oracle only, not by theorem)",
        ],
        "not_modelled": "float conversion code paths (from_f32/from_f64 casts) are oracle-checked, not proved; "
                        "Tag/NameId/GlyphId newtypes share the u16/u32 big-endian model",
    },
}
